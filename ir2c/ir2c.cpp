// ir2c: translate an LLVM-14 (typed pointer) module into plain C that CBMC's C front end accepts.
// Usage: ir2c in.ll|in.bc -o out.c [--stub NAME]... [--keep-prefix PFX]... [--report file]
#include "llvm/IR/Module.h"
#include "llvm/IR/Function.h"
#include "llvm/IR/Instructions.h"
#include "llvm/IR/IntrinsicInst.h"
#include "llvm/IR/Constants.h"
#include "llvm/IR/DataLayout.h"
#include "llvm/IR/LLVMContext.h"
#include "llvm/IR/Operator.h"
#include "llvm/IR/GetElementPtrTypeIterator.h"
#include "llvm/IR/InlineAsm.h"
#include "llvm/IRReader/IRReader.h"
#include "llvm/Support/SourceMgr.h"
#include "llvm/Support/raw_ostream.h"
#include "llvm/ADT/DenseMap.h"
#include "llvm/ADT/StringExtras.h"
#include <map>
#include <set>
#include <regex>
#include <string>
#include <vector>
#include <sstream>
#include <cstdio>
#include <cmath>
#include <functional>

using namespace llvm;

static std::set<std::string> gStubs;          // defined functions whose bodies are dropped (become externals)
static std::vector<std::pair<std::regex,std::string>> gModelRes;   // model entries whose name is 're:<regex>': the matching DEFINED functions are stubbed and given this body (template instantiations)
static const std::string *modelFor(const std::string &name);
static std::vector<std::string> gKeepPrefixes = {"__CPROVER_", "nondet_", "__VERIFIER_"};
static std::map<std::string,std::string> gModels;  // external function name -> C body
static std::vector<std::string> gPreludes;
static bool gCheckRange = false;
static bool gTypedNew = true;
static bool gFlatGep = false;
static bool gThreads = false;   // emit __CPROVER_atomic_begin/end around atomics
static std::set<std::string> gSplitStructsAll;  // as gSplitStructs, and pointer fields too
static std::set<std::string> gSplitStructs;  // LLVM struct names whose integer fields wider than 8 bits are emitted as byte arrays (unions overlaid with byte data: keeps each byte its own cell)

[[noreturn]] static void die(const std::string &msg) {
  errs() << "ir2c: error: " << msg << "\n";
  exit(2);
}

struct Emitter {
  Module &M;
  const DataLayout &DL;
  std::map<Type *, std::string> tyName;
  std::vector<Type *> aggOrder;          // struct / array types in definition order
  std::set<Type *> aggDone, aggVisiting;
  std::vector<FunctionType *> fnTypes;
  std::map<const GlobalValue *, std::string> gvName;
  std::set<std::string> usedNames;
  std::set<unsigned> oddInts;
  std::set<std::string> externalsUsed;
  std::set<std::string> unmodelled;
  std::set<std::string> zeroDefined;
  std::string body;  // function bodies
  unsigned anonCounter = 0;

  Emitter(Module &m) : M(m), DL(m.getDataLayout()) {}

  // ---------- names ----------
  static std::string sanitize(StringRef s) {
    std::string r;
    for (char c : s) r += (isalnum((unsigned char)c) || c == '_') ? c : '_';
    if (r.empty() || isdigit((unsigned char)r[0])) r = "_" + r;
    return r;
  }
  std::string uniq(std::string base) {
    std::string n = base;
    unsigned i = 0;
    while (usedNames.count(n)) n = base + "_" + std::to_string(++i);
    usedNames.insert(n);
    return n;
  }
  bool keepName(StringRef n) {
    for (auto &p : gKeepPrefixes) if (n.startswith(p)) return true;
    return false;
  }
  const GlobalValue *resolveAlias(const GlobalValue *gv) {
    while (auto *ga = dyn_cast<GlobalAlias>(gv)) {
      const GlobalObject *o = ga->getAliaseeObject();
      if (!o) die("alias without object");
      gv = o;
    }
    return gv;
  }
  bool isExternalFn(const Function *f) { return f->isDeclaration() || f->isVarArg() || gStubs.count(f->getName().str()) || (!gModelRes.empty() && modelFor(f->getName().str()) != nullptr && !gModels.count(f->getName().str())); }
  std::string gname(const GlobalValue *gv) {
    gv = resolveAlias(gv);
    auto it = gvName.find(gv);
    if (it != gvName.end()) return it->second;
    std::string n;
    if (auto *f = dyn_cast<Function>(gv)) {
      if (isExternalFn(f) && !keepName(f->getName())) n = uniq("X_" + sanitize(f->getName()));
      else n = uniq(sanitize(f->getName()));
      if (isExternalFn(f)) externalsUsed.insert(n);
    } else {
      StringRef gn = gv->getName();
      if (gn == "stdout" || gn == "stderr" || gn == "stdin") n = uniq("ir2c_" + gn.str());   // libc's stream objects: printing is modelled away; a dummy object avoids clashing with <stdio.h> in native builds
      else n = uniq(sanitize(gn.empty() ? "anon_g" : gn));
    }
    gvName[gv] = n;
    return n;
  }

  // ---------- types ----------
  bool isSplitStruct(StructType *st) { return st && st->hasName() && (gSplitStructs.count(st->getName().str()) || gSplitStructsAll.count(st->getName().str())); }
  bool isSplitField(StructType *st, unsigned fi) { if (!isSplitStruct(st)) return false; Type *e = st->getElementType(fi); return (e->isIntegerTy() && e->getIntegerBitWidth() > 8) || (e->isPointerTy() && gSplitStructsAll.count(st->getName().str())); }   // CBMC reassembles a pointer stored over byte cells (measured)
  std::string intTy(unsigned w, bool sgn = false) {
    unsigned s = w == 1 ? 1 : w <= 8 ? 8 : w <= 16 ? 16 : w <= 32 ? 32 : w <= 64 ? 64 : w <= 128 ? 128 : 0;
    if (!s) die("integer too wide: i" + std::to_string(w));
    if (s == 1) return sgn ? "s8" : "u1";
    return (sgn ? "s" : "u") + std::to_string(s);
  }
  static unsigned storeWidth(unsigned w) { return w == 1 ? 8 : w <= 8 ? 8 : w <= 16 ? 16 : w <= 32 ? 32 : w <= 64 ? 64 : 128; }
  static bool isOdd(unsigned w) { return !(w == 1 || w == 8 || w == 16 || w == 32 || w == 64 || w == 128); }

  void visitAgg(Type *t) {
    // ensure by-value member types are defined before t
    if (aggDone.count(t)) return;
    if (aggVisiting.count(t)) die("recursive by-value aggregate");
    aggVisiting.insert(t);
    if (auto *st = dyn_cast<StructType>(t)) {
      if (!st->isOpaque())
        for (Type *e : st->elements()) { (void)cty(e); if (e->isStructTy() || e->isArrayTy()) visitAgg(e); }
    } else if (auto *at = dyn_cast<ArrayType>(t)) {
      Type *e = at->getElementType();
      (void)cty(e);
      if (e->isStructTy() || e->isArrayTy()) visitAgg(e);
    }
    aggVisiting.erase(t);
    aggDone.insert(t);
    aggOrder.push_back(t);
  }

  std::string cty(Type *t) {
    auto it = tyName.find(t);
    if (it != tyName.end()) return it->second;
    std::string n;
    switch (t->getTypeID()) {
    case Type::VoidTyID: n = "void"; break;
    case Type::IntegerTyID: {
      unsigned w = t->getIntegerBitWidth();
      if (isOdd(w)) oddInts.insert(w);
      n = intTy(w);
      break;
    }
    case Type::FloatTyID: n = "float"; break;
    case Type::DoubleTyID: n = "double"; break;
    case Type::X86_FP80TyID: n = "long double"; break;
    case Type::PointerTyID: {
      if (t->isOpaquePointerTy()) die("opaque pointers not supported; compile with -Xclang -no-opaque-pointers");
      Type *e = t->getNonOpaquePointerElementType();
      // break recursion: name struct first
      n = cty(e) + "*";
      break;
    }
    case Type::StructTyID: {
      auto *st = cast<StructType>(t);
      std::string base = st->hasName() ? sanitize(st->getName()) : std::string("anon");
      if (base.size() > 48) base = base.substr(0, 48);
      n = uniq("S_" + base);
      tyName[t] = n;  // register before visiting members (pointers to self)
      return n;
    }
    case Type::ArrayTyID: {
      n = uniq("A" + std::to_string(cast<ArrayType>(t)->getNumElements()) + "_" + std::to_string(anonCounter++));
      tyName[t] = n;
      (void)cty(cast<ArrayType>(t)->getElementType());
      return n;
    }
    case Type::FunctionTyID: {
      n = uniq("FT_" + std::to_string(fnTypes.size()));
      tyName[t] = n;
      auto *ft = cast<FunctionType>(t);
      fnTypes.push_back(ft);
      (void)cty(ft->getReturnType());
      for (Type *p : ft->params()) (void)cty(p);
      return n;
    }
    case Type::MetadataTyID: n = "int"; break;
    default: {
      std::string s; raw_string_ostream os(s); t->print(os);
      die("unsupported type: " + os.str());
    }
    }
    tyName[t] = n;
    return n;
  }

  // ---------- constants ----------
  std::string apIntLit(const APInt &v, unsigned w) {
    if (w <= 64) {
      std::string s = "((" + intTy(w) + ")0x" + utohexstr(v.getZExtValue()) + "ULL)";
      return s;
    }
    if (w <= 128) {
      APInt lo = v.trunc(64), hi = v.lshr(64).trunc(64);
      return "((((u128)0x" + utohexstr(hi.getZExtValue()) + "ULL)<<64)|(u128)0x" + utohexstr(lo.getZExtValue()) + "ULL)";
    }
    die("wide int constant");
  }
  std::string fpLit(const APFloat &f, Type *t) {
    if (t->isFloatTy() || t->isDoubleTy()) {
      bool isF = t->isFloatTy();
      if (f.isNaN() || f.isInfinity()) {
        // reproduce exact bit pattern via helper
        uint64_t bits = f.bitcastToAPInt().getZExtValue();
        return isF ? "bc_u32_f32(0x" + utohexstr(bits) + "u)" : "bc_u64_f64(0x" + utohexstr(bits) + "ULL)";
      }
      double d = isF ? (double)f.convertToFloat() : f.convertToDouble();
      char buf[64];
      snprintf(buf, sizeof buf, "%a", d);
      return std::string("(") + (isF ? "(float)" : "(double)") + buf + ")";
    }
    if (t->isX86_FP80Ty()) {
      bool loses; APFloat g = f; g.convert(APFloat::IEEEdouble(), APFloat::rmNearestTiesToEven, &loses);
      char buf[64]; snprintf(buf, sizeof buf, "%a", g.convertToDouble());
      return std::string("((long double)") + buf + ")";
    }
    die("fp constant type");
  }
  bool fpLitIsConst(const APFloat &f) { return !(f.isNaN() || f.isInfinity()); }

  // inInit: we are inside a static initializer (no compound literals / calls)
  std::string cexpr(const Constant *c, bool inInit = false) {
    Type *t = c->getType();
    if (auto *ci = dyn_cast<ConstantInt>(c)) return apIntLit(ci->getValue(), ci->getBitWidth());
    if (auto *cf = dyn_cast<ConstantFP>(c)) {
      if (inInit && !fpLitIsConst(cf->getValueAPF())) {
        if (cf->getValueAPF().isInfinity()) return std::string(cf->getValueAPF().isNegative() ? "(-" : "(") + (t->isFloatTy() ? "__builtin_inff())" : "__builtin_inf())");
        return t->isFloatTy() ? "__builtin_nanf(\"\")" : "__builtin_nan(\"\")";
      }
      return fpLit(cf->getValueAPF(), t);
    }
    if (isa<ConstantPointerNull>(c)) return "((" + cty(t) + ")0)";
    if (auto *gv = dyn_cast<GlobalValue>(c)) {
      const GlobalValue *r = resolveAlias(gv);
      std::string e = "(&" + gname(r) + ")";
      if (r->getType() != gv->getType()) e = "((" + cty(t) + ")" + e + ")";
      return e;
    }
    if (isa<UndefValue>(c) || isa<ConstantAggregateZero>(c)) {
      if (t->isStructTy() || t->isArrayTy()) return inInit ? "{0}" : "((" + cty(t) + "){0})";
      if (t->isPointerTy()) return "((" + cty(t) + ")0)";
      if (t->isFloatingPointTy()) return "((" + cty(t) + ")0)";
      return "((" + cty(t) + ")0)";
    }
    if (auto *ca = dyn_cast<ConstantDataSequential>(c)) {
      if (!t->isArrayTy()) die("constant data vector");
      std::string s = inInit ? "{{" : "((" + cty(t) + "){{";
      for (unsigned i = 0, n = ca->getNumElements(); i < n; i++) {
        if (i) s += ",";
        s += cexpr(ca->getElementAsConstant(i), inInit);
      }
      s += inInit ? "}}" : "}})";
      return s;
    }
    if (auto *ca = dyn_cast<ConstantArray>(c)) {
      std::string s = inInit ? "{{" : "((" + cty(t) + "){{";
      for (unsigned i = 0, n = ca->getNumOperands(); i < n; i++) {
        if (i) s += ",";
        s += cexpr(ca->getOperand(i), inInit);
      }
      s += inInit ? "}}" : "}})";
      return s;
    }
    if (auto *cs = dyn_cast<ConstantStruct>(c)) {
      if (isSplitStruct(cast<StructType>(t))) die("non-zero constant of a --split-struct type");
      std::string s = inInit ? "{" : "((" + cty(t) + "){";
      for (unsigned i = 0, n = cs->getNumOperands(); i < n; i++) {
        if (i) s += ",";
        s += cexpr(cs->getOperand(i), inInit);
      }
      if (cs->getNumOperands() == 0) s += "0";
      s += inInit ? "}" : "})";
      return s;
    }
    if (auto *ce = dyn_cast<ConstantExpr>(c)) {
      unsigned op = ce->getOpcode();
      auto A = [&](unsigned i) { return cexpr(ce->getOperand(i), inInit); };
      switch (op) {
      case Instruction::GetElementPtr: return gepExpr(cast<GEPOperator>(ce), [&](const Value *v) { return cexpr(cast<Constant>(v), inInit); });
      case Instruction::BitCast:
      case Instruction::AddrSpaceCast:
        if (t->isPointerTy()) return "((" + cty(t) + ")" + A(0) + ")";
        die("non-pointer constant bitcast");
      case Instruction::PtrToInt: return "((" + cty(t) + ")(u64)" + A(0) + ")";
      case Instruction::IntToPtr: return "((" + cty(t) + ")(u64)" + A(0) + ")";
      case Instruction::Trunc: case Instruction::ZExt: return castInt(A(0), ce->getOperand(0)->getType(), t, false);
      case Instruction::SExt: return castInt(A(0), ce->getOperand(0)->getType(), t, true);
      case Instruction::Add: case Instruction::Sub: case Instruction::Mul: case Instruction::And: case Instruction::Or:
      case Instruction::Xor: case Instruction::Shl: case Instruction::LShr: case Instruction::AShr:
      case Instruction::UDiv: case Instruction::SDiv: case Instruction::URem: case Instruction::SRem:
        return binop(op, A(0), A(1), t);
      case Instruction::ICmp: return icmp((CmpInst::Predicate)ce->getPredicate(), A(0), A(1), ce->getOperand(0)->getType());
      case Instruction::Select: return "(" + A(0) + "?" + A(1) + ":" + A(2) + ")";
      default: die(std::string("unsupported constant expr: ") + ce->getOpcodeName());
      }
    }
    std::string s; raw_string_ostream os(s); c->print(os);
    die("unsupported constant: " + os.str());
  }

  // ---------- expressions ----------
  std::string mask(const std::string &e, unsigned w) {
    if (!isOdd(w)) return e;
    unsigned sw = storeWidth(w);
    if (sw <= 64) return "((" + intTy(w) + ")((" + e + ")&0x" + utohexstr((~0ULL) >> (64 - w)) + "ULL))";
    return "((u128)((" + e + ")&((((u128)1)<<" + std::to_string(w) + ")-1)))";
  }
  // sign-extended signed view of an N-bit value held in its storage type
  std::string sview(const std::string &e, unsigned w) {
    unsigned sw = storeWidth(w);
    std::string st = "s" + std::to_string(sw);
    if (w == 1) return "((s8)-(s8)(" + e + "))";
    if (!isOdd(w)) return "((" + st + ")(" + e + "))";
    unsigned sh = sw - w;
    return "((" + st + ")(((" + st + ")((" + e + ")<<" + std::to_string(sh) + "))>>" + std::to_string(sh) + "))";
  }
  std::string castInt(const std::string &e, Type *from, Type *to, bool sgn) {
    unsigned fw = from->getIntegerBitWidth(), tw = to->getIntegerBitWidth();
    std::string tt = intTy(tw);
    if (tw < fw) {  // trunc
      if (tw == 1) return "((u1)((" + e + ")&1))";
      return mask("((" + tt + ")(" + e + "))", tw);
    }
    if (!sgn) return "((" + tt + ")(" + e + "))";
    std::string st = "s" + std::to_string(storeWidth(tw));
    return mask("((" + tt + ")(" + st + ")" + sview(e, fw) + ")", tw);
  }
  std::string binop(unsigned op, const std::string &a, const std::string &b, Type *t) {
    if (t->isFloatingPointTy()) {
      switch (op) {
      case Instruction::FAdd: return "(" + a + "+" + b + ")";
      case Instruction::FSub: return "(" + a + "-" + b + ")";
      case Instruction::FMul: return "(" + a + "*" + b + ")";
      case Instruction::FDiv: return "(" + a + "/" + b + ")";
      case Instruction::FRem: return t->isFloatTy() ? "fmodf(" + a + "," + b + ")" : "fmod(" + a + "," + b + ")";
      }
      die("fp binop");
    }
    if (!t->isIntegerTy()) die("vector/other binop");
    unsigned w = t->getIntegerBitWidth();
    std::string T = intTy(w);
    unsigned sw = storeWidth(w);
    std::string W = std::to_string(w);
    if (w == 1) {
      switch (op) {
      case Instruction::Add: case Instruction::Sub: case Instruction::Xor: return "((u1)(" + a + "^" + b + "))";
      case Instruction::Mul: case Instruction::And: return "((u1)(" + a + "&" + b + "))";
      case Instruction::Or: return "((u1)(" + a + "|" + b + "))";
      default: die("i1 binop");
      }
    }
    // promote to at least 32 bits unsigned to avoid C integer promotion to signed int
    std::string P = sw < 32 ? "u32" : T;
    auto U = [&](const std::string &x) { return "((" + P + ")" + x + ")"; };
    switch (op) {
    case Instruction::Add: return mask("((" + T + ")(" + U(a) + "+" + U(b) + "))", w);
    case Instruction::Sub: return mask("((" + T + ")(" + U(a) + "-" + U(b) + "))", w);
    case Instruction::Mul: return mask("((" + T + ")(" + U(a) + "*" + U(b) + "))", w);
    case Instruction::And: return "((" + T + ")(" + U(a) + "&" + U(b) + "))";
    case Instruction::Or: return "((" + T + ")(" + U(a) + "|" + U(b) + "))";
    case Instruction::Xor: return "((" + T + ")(" + U(a) + "^" + U(b) + "))";
    case Instruction::UDiv: return "((" + T + ")(" + U(a) + "/" + U(b) + "))";
    case Instruction::URem: return "((" + T + ")(" + U(a) + "%" + U(b) + "))";
    case Instruction::Shl: return mask("((" + T + ")(" + U(b) + "<" + W + "?" + U(a) + "<<" + U(b) + ":0))", w);
    case Instruction::LShr: return "((" + T + ")(" + U(b) + "<" + W + "?" + U(a) + ">>" + U(b) + ":0))";
    case Instruction::AShr: {
      std::string S = "s" + std::to_string(sw < 32 ? 32 : sw);
      std::string sa = "((" + S + ")" + sview(a, w) + ")";
      return mask("((" + T + ")(" + U(b) + "<" + W + "?" + sa + ">>" + U(b) + ":(" + sa + "<0?-1:0)))", w);
    }
    case Instruction::SDiv: case Instruction::SRem: {
      std::string S = "s" + std::to_string(sw < 32 ? 32 : sw);
      std::string sa = "((" + S + ")" + sview(a, w) + ")", sb = "((" + S + ")" + sview(b, w) + ")";
      if (op == Instruction::SDiv) return mask("((" + T + ")(" + sb + "==-1?(" + S + ")(0-(" + P + ")" + sa + "):" + sa + "/" + sb + "))", w);
      return mask("((" + T + ")(" + sb + "==-1?0:" + sa + "%" + sb + "))", w);
    }
    }
    die("binop");
  }
  std::string icmp(CmpInst::Predicate p, std::string a, std::string b, Type *t) {
    if (t->isPointerTy()) {
      if (p == CmpInst::ICMP_EQ) return "((u1)((void*)" + a + "==(void*)" + b + "))";
      if (p == CmpInst::ICMP_NE) return "((u1)((void*)" + a + "!=(void*)" + b + "))";
      // ordering of two pointers: emitted as a C pointer comparison (CBMC folds it to an offset comparison for pointers into the same object; the integer
      // form (u64)a < (u64)b is not simplified and turns every bounds-checking loop into a symbolic one)
      const char *po = p == CmpInst::ICMP_UGT || p == CmpInst::ICMP_SGT ? ">" : p == CmpInst::ICMP_UGE || p == CmpInst::ICMP_SGE ? ">=" : p == CmpInst::ICMP_ULT || p == CmpInst::ICMP_SLT ? "<" : "<=";
      return "((u1)IR2C_PTRCMP((u8*)" + a + "," + std::string(po) + ",(u8*)" + b + "))";
    }
    if (!t->isIntegerTy()) die("vector icmp");
    unsigned w = t->getIntegerBitWidth();
    const char *o = nullptr; bool sg = false;
    switch (p) {
    case CmpInst::ICMP_EQ: o = "=="; break;
    case CmpInst::ICMP_NE: o = "!="; break;
    case CmpInst::ICMP_UGT: o = ">"; break;
    case CmpInst::ICMP_UGE: o = ">="; break;
    case CmpInst::ICMP_ULT: o = "<"; break;
    case CmpInst::ICMP_ULE: o = "<="; break;
    case CmpInst::ICMP_SGT: o = ">"; sg = true; break;
    case CmpInst::ICMP_SGE: o = ">="; sg = true; break;
    case CmpInst::ICMP_SLT: o = "<"; sg = true; break;
    case CmpInst::ICMP_SLE: o = "<="; sg = true; break;
    default: die("icmp pred");
    }
    if (sg) return "((u1)(" + sview(a, w) + o + sview(b, w) + "))";
    return "((u1)(" + a + o + b + "))";
  }
  std::string fcmp(CmpInst::Predicate p, const std::string &a, const std::string &b) {
    std::string ord = "(" + a + "==" + a + "&&" + b + "==" + b + ")";
    std::string e;
    switch (p) {
    case CmpInst::FCMP_FALSE: e = "0"; break;
    case CmpInst::FCMP_TRUE: e = "1"; break;
    case CmpInst::FCMP_OEQ: e = a + "==" + b; break;
    case CmpInst::FCMP_OGT: e = a + ">" + b; break;
    case CmpInst::FCMP_OGE: e = a + ">=" + b; break;
    case CmpInst::FCMP_OLT: e = a + "<" + b; break;
    case CmpInst::FCMP_OLE: e = a + "<=" + b; break;
    case CmpInst::FCMP_ONE: e = "(" + a + "<" + b + "||" + a + ">" + b + ")"; break;
    case CmpInst::FCMP_ORD: e = ord; break;
    case CmpInst::FCMP_UNO: e = "!" + ord; break;
    case CmpInst::FCMP_UEQ: e = "!(" + a + "<" + b + "||" + a + ">" + b + ")"; break;
    case CmpInst::FCMP_UGT: e = "!(" + a + "<=" + b + ")"; break;
    case CmpInst::FCMP_UGE: e = "!(" + a + "<" + b + ")"; break;
    case CmpInst::FCMP_ULT: e = "!(" + a + ">=" + b + ")"; break;
    case CmpInst::FCMP_ULE: e = "!(" + a + ">" + b + ")"; break;
    case CmpInst::FCMP_UNE: e = a + "!=" + b; break;
    default: die("fcmp pred");
    }
    return "((u1)(" + e + "))";
  }

  template <class F> std::string gepExpr(const GEPOperator *g, F val) {
    if (gFlatGep) {
      std::string base = "((u8*)" + val(g->getPointerOperand()) + ")";
      int64_t coff = 0; std::string var;
      for (gep_type_iterator gi = gep_type_begin(g), ge = gep_type_end(g); gi != ge; ++gi) {
        const Value *idx = gi.getOperand();
        if (StructType *st = gi.getStructTypeOrNull()) { coff += (int64_t)DL.getStructLayout(st)->getElementOffset(cast<ConstantInt>(idx)->getZExtValue()); continue; }
        uint64_t stride = DL.getTypeAllocSize(gi.getIndexedType()).getFixedSize();
        if (auto *ci = dyn_cast<ConstantInt>(idx)) coff += ci->getSExtValue() * (int64_t)stride;
        else var += "+(s64)" + sview(val(idx), idx->getType()->getIntegerBitWidth()) + "*" + std::to_string(stride) + "LL";
      }
      return "((" + cty(g->getType()) + ")(" + base + "+(" + std::to_string(coff) + "LL" + var + ")))";
    }
    std::string e = val(g->getPointerOperand());
    Type *srcTy = g->getSourceElementType();
    Type *ptrElem = g->getPointerOperandType()->getNonOpaquePointerElementType();
    if (srcTy != ptrElem) e = "((" + cty(srcTy) + "*)" + e + ")";
    bool first = true; bool sawSplit = false;
    std::string path;
    Type *cur = srcTy;
    for (auto it = g->idx_begin(); it != g->idx_end(); ++it) {
      const Value *idx = *it;
      std::string ie;
      if (auto *ci = dyn_cast<ConstantInt>(idx)) ie = std::to_string(ci->getSExtValue());
      else ie = "(s64)" + sview(val(idx), idx->getType()->getIntegerBitWidth());
      if (first) {
        path = "[" + ie + "]";
        first = false;
      } else if (auto *st = dyn_cast<StructType>(cur)) {
        unsigned fi = cast<ConstantInt>(idx)->getZExtValue();
        path += ".f" + std::to_string(fi);
        if (isSplitField(st, fi)) { sawSplit = true; }
        cur = st->getElementType(fi);
      } else if (auto *at = dyn_cast<ArrayType>(cur)) {
        path += ".a[" + ie + "]";
        cur = at->getElementType();
      } else die("gep into non-aggregate");
    }
    if (first) return e;
    if (sawSplit) return "((" + cty(g->getType()) + ")&(" + e + ")" + path + ")";
    return "(&(" + e + ")" + path + ")";
  }

  // ---------- function body ----------
  DenseMap<const Value *, std::string> local;
  std::string val(const Value *v) {
    if (auto *c = dyn_cast<Constant>(v)) return cexpr(c);
    auto it = local.find(v);
    if (it == local.end()) {
      std::string s; raw_string_ostream os(s); v->print(os);
      die("unnamed value: " + os.str());
    }
    return it->second;
  }

  void emitEdge(std::string &o, const BasicBlock *from, const BasicBlock *to, const std::string &ind) {
    for (const PHINode &phi : to->phis()) {
      const Value *in = phi.getIncomingValueForBlock(from);
      o += ind + local[&phi] + "_in = " + val(in) + ";\n";
    }
    o += ind + "goto " + local[to] + ";\n";
  }

  std::string bitcastScalar(const std::string &e, Type *from, Type *to) {
    if (from->isPointerTy() && to->isPointerTy()) return "((" + cty(to) + ")" + e + ")";
    auto key = [&](Type *t) -> std::string {
      if (t->isFloatTy()) return "f32";
      if (t->isDoubleTy()) return "f64";
      if (t->isIntegerTy(32)) return "u32";
      if (t->isIntegerTy(64)) return "u64";
      return "";
    };
    std::string a = key(from), b = key(to);
    if (a.empty() || b.empty() || a == b) die("unsupported bitcast");
    return "bc_" + a + "_" + b + "(" + e + ")";
  }

  std::string callExpr(const CallBase &cb, bool &isVoidLike) {
    isVoidLike = cb.getType()->isVoidTy();
    const Value *callee = cb.getCalledOperand()->stripPointerCasts();
    if (isa<InlineAsm>(cb.getCalledOperand())) {
      auto *ia = cast<InlineAsm>(cb.getCalledOperand());
      if (ia->getAsmString().empty()) { isVoidLike = true; return ""; }  // compiler barrier
      if (ia->getAsmString() == "bswap $0" && cb.arg_size() == 1 && cb.getType()->isIntegerTy()) return "IR2C_bswap" + std::to_string(cb.getType()->getIntegerBitWidth()) + "(" + val(cb.getArgOperand(0)) + ")";
      die("inline asm: " + ia->getAsmString());
    }
    std::vector<std::string> args;
    for (unsigned i = 0; i < cb.arg_size(); i++) {
      const Value *av = cb.getArgOperand(i);
      if (av->getType()->isMetadataTy()) { args.push_back("0"); continue; }
      args.push_back(val(av));
    }
    auto join = [&]() { std::string s; for (size_t i = 0; i < args.size(); i++) { if (i) s += ","; s += args[i]; } return s; };
    if (auto *f = dyn_cast<Function>(callee)) {
      if (f->isIntrinsic()) return intrinsic(cb, f, args, isVoidLike);
      if ((f->getName() == "_ZnamRKSt9nothrow_t" || f->getName() == "_ZnwmRKSt9nothrow_t" || f->getName() == "_Znam" || f->getName() == "_Znwm") && gTypedNew) {
        // typed allocation: find the unique non-i8 bitcast user
        Type *elt = nullptr; unsigned nb = 0;
        for (const User *u : cb.users()) if (auto *bc = dyn_cast<BitCastInst>(u)) { Type *e = bc->getType()->getNonOpaquePointerElementType(); if (!e->isIntegerTy(8) && e->isSized()) { if (elt != e) nb++; elt = e; } }
        // array-new with a cookie: p = new[](8 + k*sizeof(T)); *(i64*)p = k; arr = (T*)(p+8).  Type the block as T[k+1] with the cookie in the tail of a dummy
        // element 0, so that the elements keep their field structure (vtable pointers, Refs) instead of becoming bytes of an i64 array.
        {
          // the element type is the struct type that the SMALLEST constant byte offset is cast to (larger offsets are the end pointer or direct member accesses)
          Type *celt = nullptr; uint64_t coff = 0; unsigned ncand = 0;
          for (const User *u : cb.users()) if (auto *g = dyn_cast<GetElementPtrInst>(u)) {
            if (g->getNumIndices() == 1) if (auto *ci = dyn_cast<ConstantInt>(g->getOperand(1))) {
              const uint64_t off = ci->getZExtValue();
              for (const User *u2 : g->users()) if (auto *bc2 = dyn_cast<BitCastInst>(u2)) {
                Type *e = bc2->getType()->getNonOpaquePointerElementType();
                if (e->isIntegerTy(8) || !e->isSized() || !e->isStructTy() || off == 0) continue;
                if (celt == nullptr || off < coff) { celt = e; coff = off; ncand = 1; }
                else if (off == coff && e != celt) ncand++;
              }
            }
          }
          if (getenv("IR2C_DEBUG")) errs() << "cookie probe: celt=" << (celt!=nullptr) << " ncand=" << ncand << " coff=" << coff << "\n";
          if (celt && ncand == 1 && coff > 0 && coff <= 16 && DL.getTypeAllocSize(celt).getFixedSize() >= coff) return "IR2C_NEW_COOKIE(" + cty(celt) + "," + args[0] + "," + std::to_string(coff) + ")";
        }
        if (elt && nb == 1 && !DL.getTypeAllocSize(elt).isZero()) return "IR2C_NEW_TYPED(" + cty(elt) + "," + args[0] + ")";
      }
      if (f->getName() == "__CPROVER_assert" && cb.arg_size() == 2) {
        std::string msg = "assertion";
        if (auto *g = dyn_cast<GlobalVariable>(cb.getArgOperand(1)->stripPointerCasts()->stripInBoundsConstantOffsets()))
          if (g->hasInitializer()) if (auto *cda = dyn_cast<ConstantDataArray>(g->getInitializer())) if (cda->isCString()) msg = cda->getAsCString().str();
        std::string esc; for (char c : msg) { if (c == '"' || c == '\\') esc += '\\'; if (c == '\n') esc += "\\n"; else esc += c; }
        return "__CPROVER_assert(" + args[0] + ",\"" + esc + "\")";
      }
      FunctionType *ft = f->getFunctionType();
      if (ft == cb.getFunctionType()) {
        // byval args: pass pointer to a private copy
        return gname(f) + "(" + join() + ")";
      }
      // call through mismatching type: cast function pointer
      return "((" + cty(cb.getFunctionType()) + "*)&" + gname(f) + ")(" + join() + ")";
    }
    // indirect
    std::string fp = val(cb.getCalledOperand());
    return "(" + fp + ")(" + join() + ")";
  }

  std::string intrinsic(const CallBase &cb, const Function *f, std::vector<std::string> &a, bool &isVoidLike) {
    Intrinsic::ID id = f->getIntrinsicID();
    Type *rt = cb.getType();
    auto W = [&]() { return rt->getIntegerBitWidth(); };
    switch (id) {
    case Intrinsic::lifetime_start: case Intrinsic::lifetime_end: case Intrinsic::dbg_declare: case Intrinsic::dbg_value:
    case Intrinsic::dbg_label: case Intrinsic::experimental_noalias_scope_decl: case Intrinsic::invariant_start:
    case Intrinsic::invariant_end: case Intrinsic::donothing: case Intrinsic::prefetch: case Intrinsic::assume:
    case Intrinsic::stacksave: case Intrinsic::stackrestore: case Intrinsic::var_annotation:
      isVoidLike = true; return "";
    case Intrinsic::memcpy: case Intrinsic::memcpy_inline: case Intrinsic::memmove: {
      isVoidLike = true;
      // a whole-object copy of known type (both operands are bitcasts of T*, length == sizeof(T)) is emitted as a typed assignment: a byte/word copy loop
      // would turn every field of the destination into a byte-update chain that CBMC's constant propagation cannot see through
      if (auto *len = dyn_cast<ConstantInt>(cb.getArgOperand(2))) {
        const Value *d = cb.getArgOperand(0)->stripPointerCasts(), *sv = cb.getArgOperand(1)->stripPointerCasts();
        Type *dt = d->getType()->isPointerTy() ? d->getType()->getNonOpaquePointerElementType() : nullptr;
        Type *stp = sv->getType()->isPointerTy() ? sv->getType()->getNonOpaquePointerElementType() : nullptr;
        if (dt && dt == stp && (dt->isStructTy() || dt->isArrayTy()) && dt->isSized() && DL.getTypeAllocSize(dt).getFixedSize() == len->getZExtValue() && !isa<Constant>(d) && !isa<Constant>(sv))
          return "(*(" + cty(dt) + "*)" + val(d) + " = *(" + cty(dt) + "*)" + val(sv) + ")";
      }
      if (id == Intrinsic::memmove) return "IR2C_memmove(" + a[0] + "," + a[1] + "," + a[2] + ")";
      return "IR2C_memcpy(" + a[0] + "," + a[1] + "," + a[2] + ")";
    }
    case Intrinsic::memset: {
      isVoidLike = true;
      if (auto *len = dyn_cast<ConstantInt>(cb.getArgOperand(2))) if (auto *cv = dyn_cast<ConstantInt>(cb.getArgOperand(1))) if (cv->isZero()) {
        const Value *d = cb.getArgOperand(0)->stripPointerCasts();
        Type *dt = d->getType()->isPointerTy() ? d->getType()->getNonOpaquePointerElementType() : nullptr;
        if (dt && (dt->isStructTy() || dt->isArrayTy()) && dt->isSized() && DL.getTypeAllocSize(dt).getFixedSize() == len->getZExtValue() && !isa<Constant>(d))
          return "(*(" + cty(dt) + "*)" + val(d) + " = (" + cty(dt) + "){0})";
      }
      return "IR2C_memset(" + a[0] + "," + a[1] + "," + a[2] + ")";
    }
    case Intrinsic::expect: case Intrinsic::expect_with_probability: return a[0];
    case Intrinsic::launder_invariant_group: case Intrinsic::strip_invariant_group: return a[0];
    case Intrinsic::objectsize: return cast<ConstantInt>(cb.getArgOperand(1))->isOne() ? "((" + cty(rt) + ")0)" : "((" + cty(rt) + ")-1)";
    case Intrinsic::is_constant: return "((u1)0)";
    case Intrinsic::umax: return "((" + a[0] + ")>(" + a[1] + ")?(" + a[0] + "):(" + a[1] + "))";
    case Intrinsic::umin: return "((" + a[0] + ")<(" + a[1] + ")?(" + a[0] + "):(" + a[1] + "))";
    case Intrinsic::smax: return "(" + sview(a[0], W()) + ">" + sview(a[1], W()) + "?(" + a[0] + "):(" + a[1] + "))";
    case Intrinsic::smin: return "(" + sview(a[0], W()) + "<" + sview(a[1], W()) + "?(" + a[0] + "):(" + a[1] + "))";
    case Intrinsic::abs: return "(" + sview(a[0], W()) + "<0?(" + cty(rt) + ")(0-(" + a[0] + ")):(" + a[0] + "))";
    case Intrinsic::bswap: return "IR2C_bswap" + std::to_string(W()) + "(" + a[0] + ")";
    case Intrinsic::ctpop: return "IR2C_ctpop" + std::to_string(storeWidth(W())) + "(" + a[0] + ")";
    case Intrinsic::ctlz: return "IR2C_ctlz" + std::to_string(W()) + "(" + a[0] + ")";
    case Intrinsic::cttz: return "IR2C_cttz" + std::to_string(W()) + "(" + a[0] + ")";
    case Intrinsic::fshl: case Intrinsic::fshr: {
      unsigned w = W(); std::string T = cty(rt), Ws = std::to_string(w);
      std::string s = "((" + a[2] + ")%" + Ws + ")";
      if (id == Intrinsic::fshl) return "((" + T + ")(" + s + "==0?(" + a[0] + "):(((" + a[0] + ")<<" + s + ")|((" + a[1] + ")>>(" + Ws + "-" + s + ")))))";
      return "((" + T + ")(" + s + "==0?(" + a[1] + "):(((" + a[1] + ")>>" + s + ")|((" + a[0] + ")<<(" + Ws + "-" + s + ")))))";
    }
    case Intrinsic::uadd_with_overflow: case Intrinsic::usub_with_overflow: case Intrinsic::umul_with_overflow:
    case Intrinsic::sadd_with_overflow: case Intrinsic::ssub_with_overflow: case Intrinsic::smul_with_overflow: {
      Type *it = cb.getArgOperand(0)->getType(); unsigned w = it->getIntegerBitWidth();
      if (isOdd(w) || w > 64) die("odd with.overflow");
      const char *nm = id == Intrinsic::uadd_with_overflow ? "uadd" : id == Intrinsic::usub_with_overflow ? "usub" : id == Intrinsic::umul_with_overflow ? "umul"
                     : id == Intrinsic::sadd_with_overflow ? "sadd" : id == Intrinsic::ssub_with_overflow ? "ssub" : "smul";
      // result struct {iN, i1}
      return "IR2C_OVF(" + cty(rt) + "," + std::string(nm) + "," + std::to_string(w) + "," + a[0] + "," + a[1] + ")";
    }
    case Intrinsic::usub_sat: return "((" + a[0] + ")>(" + a[1] + ")?(" + cty(rt) + ")((" + a[0] + ")-(" + a[1] + ")):(" + cty(rt) + ")0)";
    case Intrinsic::uadd_sat: return "((" + cty(rt) + ")((" + a[0] + ")+(" + a[1] + "))<(" + a[0] + ")?(" + cty(rt) + ")-1:(" + cty(rt) + ")((" + a[0] + ")+(" + a[1] + ")))";
    case Intrinsic::fabs: return rt->isFloatTy() ? "fabsf(" + a[0] + ")" : "fabs(" + a[0] + ")";
    case Intrinsic::floor: return rt->isFloatTy() ? "floorf(" + a[0] + ")" : "floor(" + a[0] + ")";
    case Intrinsic::ceil: return rt->isFloatTy() ? "ceilf(" + a[0] + ")" : "ceil(" + a[0] + ")";
    case Intrinsic::sqrt: return rt->isFloatTy() ? "sqrtf(" + a[0] + ")" : "sqrt(" + a[0] + ")";
    case Intrinsic::trap: case Intrinsic::ubsantrap: case Intrinsic::debugtrap: isVoidLike = true; return "IR2C_trap()";
    case Intrinsic::vastart: case Intrinsic::vaend: case Intrinsic::vacopy: die("varargs function body must be stubbed: " + cb.getFunction()->getName().str());
    default: die("unsupported intrinsic: " + f->getName().str());
    }
  }

  void emitFunction(const Function &F) {
    local.clear();
    std::string o;
    FunctionType *ft = F.getFunctionType();
    o += cty(ft->getReturnType()) + " " + gname(&F) + "(";
    unsigned ai = 0;
    for (const Argument &A : F.args()) {
      if (ai) o += ", ";
      std::string n = "a" + std::to_string(ai);
      local[&A] = n;
      o += cty(A.getType()) + " " + n;
      ai++;
    }
    if (ft->isVarArg()) die("definition of varargs function must be stubbed: " + F.getName().str());
    if (ai == 0) o += "void";
    o += ")\n{\n";
    unsigned slot = 0, bslot = 0;
    for (const BasicBlock &B : F) {
      local[&B] = "L" + std::to_string(bslot++);
      for (const Instruction &I : B) {
        if (!I.getType()->isVoidTy() || isa<AllocaInst>(I)) {
          std::string n = "v" + std::to_string(slot++);
          local[&I] = n;
        }
      }
    }
    // declarations
    for (const BasicBlock &B : F)
      for (const Instruction &I : B) {
        if (I.getType()->isVoidTy()) continue;
        std::string n = local[&I];
        o += "  " + cty(I.getType()) + " " + n + ";\n";
        if (isa<PHINode>(I)) o += "  " + cty(I.getType()) + " " + n + "_in;\n";
        if (auto *al = dyn_cast<AllocaInst>(&I)) {
          if (auto *cnt = dyn_cast<ConstantInt>(al->getArraySize())) {
            uint64_t n2 = cnt->getZExtValue();
            o += "  " + cty(al->getAllocatedType()) + " " + n + "_mem" + (n2 == 1 ? "" : "[" + std::to_string(n2) + "]") + ";\n";
          }
        }
      }
    for (const BasicBlock &B : F) {
      o += local[&B] + ": ;\n";
      for (const PHINode &phi : B.phis()) o += "  " + local[&phi] + " = " + local[&phi] + "_in;\n";
      for (const Instruction &I : B) {
        if (isa<PHINode>(I)) continue;
        emitInst(o, I);
      }
    }
    o += "}\n\n";
    body += o;
  }

  void emitInst(std::string &o, const Instruction &I) {
    std::string lhs = I.getType()->isVoidTy() ? "" : local[&I] + " = ";
    auto V = [&](unsigned i) { return val(I.getOperand(i)); };
    Type *T = I.getType();
    switch (I.getOpcode()) {
    case Instruction::Ret:
      if (I.getNumOperands()) o += "  return " + V(0) + ";\n"; else o += "  return;\n";
      break;
    case Instruction::Br: {
      auto &br = cast<BranchInst>(I);
      if (br.isUnconditional()) emitEdge(o, I.getParent(), br.getSuccessor(0), "  ");
      else {
        o += "  if (" + val(br.getCondition()) + ") {\n";
        emitEdge(o, I.getParent(), br.getSuccessor(0), "    ");
        o += "  } else {\n";
        emitEdge(o, I.getParent(), br.getSuccessor(1), "    ");
        o += "  }\n";
      }
      break;
    }
    case Instruction::Switch: {
      auto &sw = cast<SwitchInst>(I);
      o += "  switch (" + val(sw.getCondition()) + ") {\n";
      for (auto &c : sw.cases()) {
        o += "  case " + apIntLit(c.getCaseValue()->getValue(), c.getCaseValue()->getBitWidth()) + ": {\n";
        emitEdge(o, I.getParent(), c.getCaseSuccessor(), "    ");
        o += "  }\n";
      }
      o += "  default: {\n";
      emitEdge(o, I.getParent(), sw.getDefaultDest(), "    ");
      o += "  }\n  }\n";
      break;
    }
    case Instruction::Unreachable: o += "  IR2C_unreachable();\n"; break;
    case Instruction::Invoke: {
      auto &inv = cast<InvokeInst>(I);
      bool vl; std::string ce = callExpr(inv, vl);
      if (!ce.empty()) o += "  " + (vl ? std::string() : lhs) + ce + ";\n";
      emitEdge(o, I.getParent(), inv.getNormalDest(), "  ");
      break;
    }
    case Instruction::Resume: o += "  IR2C_unreachable();\n"; break;
    case Instruction::LandingPad: o += "  IR2C_landingpad();\n"; break;
    case Instruction::FNeg: o += "  " + lhs + "(-" + V(0) + ");\n"; break;
    case Instruction::Add: case Instruction::Sub: case Instruction::Mul: case Instruction::UDiv: case Instruction::SDiv:
    case Instruction::URem: case Instruction::SRem: case Instruction::Shl: case Instruction::LShr: case Instruction::AShr:
    case Instruction::And: case Instruction::Or: case Instruction::Xor:
    case Instruction::FAdd: case Instruction::FSub: case Instruction::FMul: case Instruction::FDiv: case Instruction::FRem:
      // pointer difference: sub(ptrtoint a, ptrtoint b) is emitted as a C pointer subtraction, which CBMC folds to the offset difference for pointers into the
      // same object (it does not simplify the integer form); for different objects C leaves the result undefined and CBMC makes it nondeterministic, whereas the
      // machine code subtracts addresses (Queue::IsItemLocatedInThisContainer relies on that), so IR2C_PTRDIFF falls back to the integer views there
      if (I.getOpcode() == Instruction::Sub && T->isIntegerTy(64)) {
        auto *pa = dyn_cast<PtrToIntOperator>(I.getOperand(0)); auto *pb = dyn_cast<PtrToIntOperator>(I.getOperand(1));
        if (pa && pb) { o += "  " + lhs + "IR2C_PTRDIFF(" + val(pa->getPointerOperand()) + ", " + val(pb->getPointerOperand()) + ");\n"; break; }
      }
      o += "  " + lhs + binop(I.getOpcode(), V(0), V(1), T) + ";\n";
      break;
    case Instruction::ICmp: o += "  " + lhs + icmp(cast<ICmpInst>(I).getPredicate(), V(0), V(1), I.getOperand(0)->getType()) + ";\n"; break;
    case Instruction::FCmp: o += "  " + lhs + fcmp(cast<FCmpInst>(I).getPredicate(), V(0), V(1)) + ";\n"; break;
    case Instruction::Trunc: case Instruction::ZExt: o += "  " + lhs + castInt(V(0), I.getOperand(0)->getType(), T, false) + ";\n"; break;
    case Instruction::SExt: o += "  " + lhs + castInt(V(0), I.getOperand(0)->getType(), T, true) + ";\n"; break;
    case Instruction::FPToUI: o += "  " + lhs + mask("((" + cty(T) + ")" + V(0) + ")", T->getIntegerBitWidth()) + ";\n"; break;
    case Instruction::FPToSI: o += "  " + lhs + mask("((" + cty(T) + ")(s" + std::to_string(storeWidth(T->getIntegerBitWidth())) + ")" + V(0) + ")", T->getIntegerBitWidth()) + ";\n"; break;
    case Instruction::UIToFP: o += "  " + lhs + "((" + cty(T) + ")" + V(0) + ");\n"; break;
    case Instruction::SIToFP: o += "  " + lhs + "((" + cty(T) + ")" + sview(V(0), I.getOperand(0)->getType()->getIntegerBitWidth()) + ");\n"; break;
    case Instruction::FPTrunc: case Instruction::FPExt: o += "  " + lhs + "((" + cty(T) + ")" + V(0) + ");\n"; break;
    case Instruction::PtrToInt: o += "  " + lhs + "((" + cty(T) + ")(u64)" + V(0) + ");\n"; break;
    case Instruction::IntToPtr: o += "  " + lhs + "((" + cty(T) + ")(u64)" + V(0) + ");\n"; break;
    case Instruction::BitCast: case Instruction::AddrSpaceCast: o += "  " + lhs + bitcastScalar(V(0), I.getOperand(0)->getType(), T) + ";\n"; break;
    case Instruction::Alloca: {
      auto &al = cast<AllocaInst>(I);
      std::string n = local[&I];
      if (auto *cnt = dyn_cast<ConstantInt>(al.getArraySize())) {
        o += "  " + n + " = " + (cnt->getZExtValue() == 1 ? "&" + n + "_mem" : "&" + n + "_mem[0]") + ";\n";
      } else {
        o += "  " + n + " = (" + cty(T) + ")__builtin_alloca(sizeof(" + cty(al.getAllocatedType()) + ")*(u64)" + val(al.getArraySize()) + ");\n";
      }
      break;
    }
    case Instruction::Load: {
      auto &ld = cast<LoadInst>(I);
      std::string p = V(0);
      if (T->isIntegerTy(1)) o += "  " + lhs + "((u1)((*(u8*)" + p + ")&1));\n";
      else if (T->isIntegerTy() && isOdd(T->getIntegerBitWidth())) die("odd-width load");
      else o += "  " + lhs + "*" + p + ";\n";
      if (gCheckRange) if (MDNode *r = ld.getMetadata(LLVMContext::MD_range)) {
        if (r->getNumOperands() == 2 && T->isIntegerTy() && T->getIntegerBitWidth() <= 64) {
          uint64_t lo = mdconst::extract<ConstantInt>(r->getOperand(0))->getZExtValue();
          uint64_t hi = mdconst::extract<ConstantInt>(r->getOperand(1))->getZExtValue();
          if (lo < hi) o += "  IR2C_range_check(" + local[&I] + ">=" + std::to_string(lo) + "ULL && " + local[&I] + "<" + std::to_string(hi) + "ULL);\n";
        }
      }
      break;
    }
    case Instruction::Store: {
      Type *vt = I.getOperand(0)->getType();
      if (vt->isIntegerTy(1)) o += "  *(u8*)" + V(1) + " = " + V(0) + ";\n";
      else if (vt->isIntegerTy() && isOdd(vt->getIntegerBitWidth())) die("odd-width store");
      else o += "  *" + V(1) + " = " + V(0) + ";\n";
      break;
    }
    case Instruction::GetElementPtr: o += "  " + lhs + gepExpr(cast<GEPOperator>(&I), [&](const Value *v) { return val(v); }) + ";\n"; break;
    case Instruction::Select: o += "  " + lhs + "(" + V(0) + "?" + V(1) + ":" + V(2) + ");\n"; break;
    case Instruction::Call: {
      bool vl; std::string ce = callExpr(cast<CallInst>(I), vl);
      if (!ce.empty()) o += "  " + (vl ? std::string() : lhs) + ce + ";\n";
      break;
    }
    case Instruction::ExtractValue: {
      auto &ev = cast<ExtractValueInst>(I);
      if (auto *est = dyn_cast<StructType>(ev.getAggregateOperand()->getType())) if (isSplitStruct(est)) die("extractvalue on a --split-struct type");
      std::string e = V(0); Type *cur = ev.getAggregateOperand()->getType();
      for (unsigned idx : ev.indices()) {
        if (auto *st = dyn_cast<StructType>(cur)) { e += ".f" + std::to_string(idx); cur = st->getElementType(idx); }
        else { e += ".a[" + std::to_string(idx) + "]"; cur = cast<ArrayType>(cur)->getElementType(); }
      }
      o += "  " + lhs + e + ";\n";
      break;
    }
    case Instruction::InsertValue: {
      auto &iv = cast<InsertValueInst>(I);
      std::string n = local[&I];
      o += "  " + n + " = " + V(0) + ";\n";
      std::string e = n; Type *cur = T;
      for (unsigned idx : iv.indices()) {
        if (auto *st = dyn_cast<StructType>(cur)) { e += ".f" + std::to_string(idx); cur = st->getElementType(idx); }
        else { e += ".a[" + std::to_string(idx) + "]"; cur = cast<ArrayType>(cur)->getElementType(); }
      }
      o += "  " + e + " = " + V(1) + ";\n";
      break;
    }
    case Instruction::AtomicRMW: {
      auto &rmw = cast<AtomicRMWInst>(I);
      std::string p = V(0), v = V(1), n = local[&I];
      Type *vt = rmw.getValOperand()->getType();
      if (gThreads) o += "  __CPROVER_atomic_begin();\n";
      o += "  " + n + " = *" + p + ";\n";
      std::string nv;
      switch (rmw.getOperation()) {
      case AtomicRMWInst::Xchg: nv = v; break;
      case AtomicRMWInst::Add: nv = binop(Instruction::Add, n, v, vt); break;
      case AtomicRMWInst::Sub: nv = binop(Instruction::Sub, n, v, vt); break;
      case AtomicRMWInst::And: nv = binop(Instruction::And, n, v, vt); break;
      case AtomicRMWInst::Or: nv = binop(Instruction::Or, n, v, vt); break;
      case AtomicRMWInst::Xor: nv = binop(Instruction::Xor, n, v, vt); break;
      default: die("atomicrmw op");
      }
      o += "  *" + p + " = " + nv + ";\n";
      if (gThreads) o += "  __CPROVER_atomic_end();\n";
      break;
    }
    case Instruction::AtomicCmpXchg: {
      std::string p = V(0), cmp = V(1), nv = V(2), n = local[&I];
      if (gThreads) o += "  __CPROVER_atomic_begin();\n";
      o += "  " + n + ".f0 = *" + p + ";\n";
      Type *vt = I.getOperand(1)->getType();
      std::string eq = vt->isPointerTy() ? "((void*)" + n + ".f0==(void*)" + cmp + ")" : "(" + n + ".f0==" + cmp + ")";
      o += "  " + n + ".f1 = (u1)" + eq + ";\n";
      o += "  if (" + n + ".f1) *" + p + " = " + nv + ";\n";
      if (gThreads) o += "  __CPROVER_atomic_end();\n";
      break;
    }
    case Instruction::Fence: if (gThreads) o += "  __CPROVER_fence(\"WWfence\",\"RRfence\",\"RWfence\",\"WRfence\");\n"; break;
    case Instruction::Freeze: o += "  " + lhs + V(0) + ";\n"; break;
    default: {
      std::string s; raw_string_ostream os(s); I.print(os);
      die("unsupported instruction: " + os.str());
    }
    }
  }

  // ---------- module ----------
  std::string run() {
    std::string pre;
    pre += "/* generated by ir2c -- do not edit */\n#include \"ir2c_rt.h\"\n";
    for (auto &p : gPreludes) pre += "#include \"" + p + "\"\n";
    pre += "\n";
    // Pass 1: name all types by touching everything
    for (const GlobalVariable &G : M.globals()) (void)cty(G.getValueType());
    for (const Function &F : M) (void)cty(F.getFunctionType());
    // Pass 2: function bodies (may create more types)
    std::vector<const Function *> defs;
    for (const Function &F : M) if (!isExternalFn(&F)) defs.push_back(&F);
    for (const Function *F : defs) emitFunction(*F);
    // global initializers text (may create more types)
    std::string gdefs;
    std::string ctorCalls;
    for (const GlobalVariable &G : M.globals()) {
      if (G.getName() == "llvm.global_ctors") {
        if (G.hasInitializer()) if (auto *arr = dyn_cast<ConstantArray>(G.getInitializer())) {
          std::vector<std::pair<uint64_t, std::string>> cs;
          for (const Use &u : arr->operands()) {
            auto *cs1 = cast<ConstantStruct>(u.get());
            uint64_t prio = cast<ConstantInt>(cs1->getOperand(0))->getZExtValue();
            if (auto *f = dyn_cast<Function>(cs1->getOperand(1)->stripPointerCasts())) cs.push_back({prio, gname(f)});
          }
          std::stable_sort(cs.begin(), cs.end(), [](auto &a, auto &b) { return a.first < b.first; });
          for (auto &c : cs) ctorCalls += "  " + c.second + "();\n";
        }
        continue;
      }
      if (G.getName() == "llvm.global_dtors" || G.getName() == "llvm.used" || G.getName() == "llvm.compiler.used") continue;
      // declaration-only RTTI objects (typeinfo / vtable of a class whose key function lives in a translation unit that is not part of the closure) are only ever
      // referenced from other RTTI records: give them a zero definition so that native builds of the generated C link
      // ... and so are the few plain external variables of muscle that header code reads (e.g. muscle::_muscleSingleThreadOnly, defined false in SetupSystem.cpp):
      // a zero definition is their real initial value; the report lists them under "zero_defined_globals"
      const bool rttiDecl = G.isDeclaration() && !keepName(G.getName()) && G.getName() != "__dso_handle";
      if (rttiDecl) zeroDefined.insert(G.getName().str());
      if (G.isDeclaration() && !rttiDecl && !(G.getName() == "stdout" || G.getName() == "stderr" || G.getName() == "stdin")) continue;   // defined elsewhere (e.g. the generated layout tables): only the extern declaration below
      std::string d = std::string(G.isThreadLocal() ? "__thread " : "") + cty(G.getValueType()) + " " + gname(&G);
      if (G.hasInitializer() && !isa<UndefValue>(G.getInitializer()) && !G.getInitializer()->isNullValue()) d += " = " + cexpr(G.getInitializer(), true);
      gdefs += d + ";\n";
    }
    // now define aggregates in dependency order
    std::vector<Type *> aggs;
    for (auto &kv : tyName) if (kv.first->isStructTy() || kv.first->isArrayTy()) aggs.push_back(kv.first);
    // types may be added while visiting; iterate to fixpoint
    size_t before;
    do {
      before = tyName.size();
      std::vector<Type *> cur;
      for (auto &kv : tyName) if (kv.first->isStructTy() || kv.first->isArrayTy()) cur.push_back(kv.first);
      for (Type *t : cur) visitAgg(t);
    } while (tyName.size() != before);

    std::string td;
    for (unsigned w : oddInts) (void)w;  // odd ints are held in the next standard width
    for (Type *t : aggOrder) td += "struct " + tyName[t] + "; typedef struct " + tyName[t] + " " + tyName[t] + ";\n";
    // order function typedefs so that function types referenced (through pointers) come first
    {
      std::vector<FunctionType *> ordered; std::set<FunctionType *> done, visiting;
      std::function<void(Type *)> dep;
      std::function<void(FunctionType *)> visit = [&](FunctionType *ft) {
        if (done.count(ft) || visiting.count(ft)) return;
        visiting.insert(ft);
        dep(ft->getReturnType());
        for (Type *p : ft->params()) dep(p);
        visiting.erase(ft); done.insert(ft); ordered.push_back(ft);
      };
      dep = [&](Type *t) {
        while (t->isPointerTy()) t = t->getNonOpaquePointerElementType();
        if (auto *f = dyn_cast<FunctionType>(t)) visit(f);
      };
      std::vector<FunctionType *> copy = fnTypes;
      for (FunctionType *ft : copy) visit(ft);
      fnTypes = ordered;
    }
    for (FunctionType *ft : fnTypes) {
      td += "typedef " + cty(ft->getReturnType()) + " " + tyName[ft] + "(";
      unsigned i = 0;
      for (Type *p : ft->params()) { if (i++) td += ","; td += cty(p); }
      if (ft->isVarArg()) td += i ? ",..." : "";
      else if (!i) td += "void";
      td += ");\n";
    }
    for (Type *t : aggOrder) {
      if (auto *st = dyn_cast<StructType>(t)) {
        if (st->isOpaque()) continue;
        // LLVM marks a struct packed also when it merely reuses tail padding; if the natural layout is identical, emit a plain struct (CBMC accesses packed
        // structs bytewise, which defeats its constant propagation); the _Static_asserts below check the layout either way.
        bool needPacked = st->isPacked();
        if (needPacked) {
          StructType *nat = StructType::get(st->getContext(), st->elements(), false);
          const StructLayout *a = DL.getStructLayout(st), *b = DL.getStructLayout(nat);
          bool same = a->getSizeInBytes() == b->getSizeInBytes();
          for (unsigned k = 0; same && k < st->getNumElements(); k++) same = a->getElementOffset(k) == b->getElementOffset(k);
          if (same) needPacked = false;
        }
        std::string alignAttr;
        if (isSplitStruct(st)) alignAttr = "__attribute__((aligned(" + std::to_string(DL.getABITypeAlignment(st)) + "))) ";   // byte cells would otherwise lower the struct's alignment
        td += "struct " + std::string(needPacked ? "__attribute__((packed)) " : "") + alignAttr + tyName[t] + " {";
        unsigned i = 0;
        for (Type *e : st->elements()) {
          if (isSplitField(st, i)) td += " u8 f" + std::to_string(i) + "[" + std::to_string(DL.getTypeAllocSize(e).getFixedSize()) + "];";
          else td += " " + cty(e) + " f" + std::to_string(i) + ";";
          i++;
        }
        if (i == 0) td += " char ir2c_empty[0];";
        td += " };\n";
        const StructLayout *sl = DL.getStructLayout(st);
        if (i) td += "_Static_assert(sizeof(" + tyName[t] + ")==" + std::to_string(sl->getSizeInBytes()) + ",\"layout " + tyName[t] + "\");\n";
        for (unsigned k = 0; k < st->getNumElements(); k++)
          if (!DL.getTypeAllocSize(st->getElementType(k)).isZero() || true)
            td += "_Static_assert(__builtin_offsetof(" + tyName[t] + ",f" + std::to_string(k) + ")==" + std::to_string(sl->getElementOffset(k)) + ",\"offset\");\n";
      } else {
        auto *at = cast<ArrayType>(t);
        td += "struct " + tyName[t] + " { " + cty(at->getElementType()) + " a[" + std::to_string(at->getNumElements()) + "]; };\n";
      }
    }
    // prototypes
    std::string protos;
    for (const Function &F : M) {
      if (F.isIntrinsic()) continue;
      if (!gvName.count(&F)) continue;  // never referenced
      FunctionType *ft = F.getFunctionType();
      if (keepName(F.getName()) && isExternalFn(&F)) continue;  // provided by ir2c_rt.h
      protos += cty(ft->getReturnType()) + " " + gname(&F) + "(";
      unsigned i = 0;
      for (Type *p : ft->params()) { if (i++) protos += ","; protos += cty(p); }
      if (ft->isVarArg()) protos += i ? ",..." : "";
      else if (!i) protos += "void";
      protos += ");\n";
    }
    std::string gdecl;
    for (const GlobalVariable &G : M.globals()) {
      if (G.getName().startswith("llvm.")) continue;
      gdecl += std::string("extern ") + (G.isThreadLocal() ? "__thread " : "") + cty(G.getValueType()) + " " + gname(&G) + ";\n";
    }
    std::string out = pre + td + "\n" + protos + "\n" + gdecl + "\n" + gdefs + "\n" + body;
    for (const Function &F : M) {
      if (F.isIntrinsic() || !gvName.count(&F) || !isExternalFn(&F)) continue;
      const std::string *mb = modelFor(F.getName().str());
      if (!mb) { if (!keepName(F.getName())) unmodelled.insert(F.getName().str()); continue; }
      FunctionType *ft = F.getFunctionType();
      out += cty(ft->getReturnType()) + " " + gname(&F) + "(";
      unsigned i = 0;
      for (Type *p : ft->params()) { if (i) out += ", "; out += cty(p) + " a" + std::to_string(i); i++; }
      if (ft->isVarArg()) out += i ? ", ..." : ""; else if (!i) out += "void";
      out += ")\n{\n  " + *mb + "\n}\n\n";
    }
    out += "void ir2c_global_ctors(void)\n{\n" + ctorCalls + "}\n";
    return out;
  }
};

static const std::string *modelFor(const std::string &name) {
  auto mi = gModels.find(name); if (mi != gModels.end()) return &mi->second;
  for (auto &pr : gModelRes) if (std::regex_match(name, pr.first)) return &pr.second;
  return nullptr;
}

int main(int argc, char **argv) {
  std::string in, outp, report;
  for (int i = 1; i < argc; i++) {
    std::string a = argv[i];
    if (a == "-o" && i + 1 < argc) outp = argv[++i];
    else if (a == "--stub" && i + 1 < argc) gStubs.insert(argv[++i]);
    else if (a == "--stub-file" && i + 1 < argc) {
      FILE *f = fopen(argv[++i], "r"); if (!f) die("cannot open stub file");
      char buf[4096]; while (fgets(buf, sizeof buf, f)) { std::string s = buf; while (!s.empty() && isspace((unsigned char)s.back())) s.pop_back(); if (!s.empty() && s[0] != '#') gStubs.insert(s); }
      fclose(f);
    }
    else if (a == "--keep-prefix" && i + 1 < argc) gKeepPrefixes.push_back(argv[++i]);
    else if (a == "--check-range") gCheckRange = true;
    else if (a == "--flat-gep") gFlatGep = true;
    else if (a == "--prelude" && i + 1 < argc) gPreludes.push_back(argv[++i]);
    else if (a == "--models" && i + 1 < argc) {
      FILE *f = fopen(argv[++i], "r"); if (!f) die("cannot open models file");
      char buf[8192]; while (fgets(buf, sizeof buf, f)) { std::string s = buf; while (!s.empty() && isspace((unsigned char)s.back())) s.pop_back();
        if (s.empty() || s[0] == '#') continue; size_t sp = s.find_first_of(" \t"); if (sp == std::string::npos) die("bad model line: " + s);
        std::string key = s.substr(0, sp), bodyS = s.substr(s.find_first_not_of(" \t", sp));
        if (key.rfind("re:", 0) == 0) gModelRes.emplace_back(std::regex(key.substr(3)), bodyS); else gModels[key] = bodyS; }
      fclose(f);
    }
    else if (a == "--threads") gThreads = true;
    else if (a == "--split-struct" && i + 1 < argc) gSplitStructs.insert(argv[++i]);
    else if (a == "--split-struct-all" && i + 1 < argc) gSplitStructsAll.insert(argv[++i]);
    else if (a == "--report" && i + 1 < argc) report = argv[++i];
    else if (a[0] != '-') in = a;
    else die("bad arg " + a);
  }
  if (in.empty() || outp.empty()) die("usage: ir2c in.ll -o out.c [--stub NAME] [--stub-file F] [--check-range] [--threads] [--report F]");
  LLVMContext ctx;
  SMDiagnostic err;
  std::unique_ptr<Module> M = parseIRFile(in, err, ctx);
  if (!M) { err.print("ir2c", errs()); return 2; }
  Emitter E(*M);
  std::string c = E.run();
  FILE *f = fopen(outp.c_str(), "w"); if (!f) die("cannot write output");
  fwrite(c.data(), 1, c.size(), f); fclose(f);
  if (!report.empty()) {
    FILE *r = fopen(report.c_str(), "w");
    fprintf(r, "{\"defined\":[");
    bool first = true;
    for (const Function &F : *M) if (!E.isExternalFn(&F)) { fprintf(r, "%s\"%s\"", first ? "" : ",", F.getName().str().c_str()); first = false; }
    fprintf(r, "],\"externals\":[");
    first = true;
    for (auto &n : E.externalsUsed) { fprintf(r, "%s\"%s\"", first ? "" : ",", n.c_str()); first = false; }
    fprintf(r, "],\"unmodelled\":[");
    first = true;
    for (auto &n : E.unmodelled) { fprintf(r, "%s\"%s\"", first ? "" : ",", n.c_str()); first = false; }
    fprintf(r, "],\"zero_defined_globals\":[");
    first = true;
    for (auto &n : E.zeroDefined) { fprintf(r, "%s\"%s\"", first ? "" : ",", n.c_str()); first = false; }
    fprintf(r, "]}\n");
    fclose(r);
  }
  return 0;
}
