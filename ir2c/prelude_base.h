/* prelude_base.h -- allocator, libc and abort models for ir2c-generated C.
 * Allocation modes (per job, -D at cbmc time):
 *   default           exact: malloc(n) with n as given (sizes are constants by construction of the job, rule R1)
 *   IR2C_MAXALLOC=k   bounded: every request is asserted <= k and served from a k-byte object, end-aligned to 16 bytes, so that sizes
 *                     that depend on untrusted input do not become symbolic allocation sizes                                       */
static inline u8 *ir2c_memcpy(u8 *d, const u8 *s, u64 n)
{
#ifdef __CPROVER__
   if (n == 4) { *(u32 *) d = *(const u32 *) s; return d; }
   if (n == 8) { *(u64 *) d = *(const u64 *) s; return d; }
   if (n == 2) { *(u16 *) d = *(const u16 *) s; return d; }
#endif
   for (u64 i = 0; i < n; i++) d[i] = s[i];
   return d;
}
static inline u8 *ir2c_memmove(u8 *d, const u8 *s, u64 n) { if (d <= s || d >= s + n) { for (u64 i = 0; i < n; i++) d[i] = s[i]; } else { for (u64 i = n; i > 0; i--) d[i-1] = s[i-1]; } return d; }
static inline u8 *ir2c_memset(u8 *d, u32 c, u64 n) { for (u64 i = 0; i < n; i++) d[i] = (u8)c; return d; }
static inline u32 ir2c_memcmp(const u8 *a, const u8 *b, u64 n) { for (u64 i = 0; i < n; i++) if (a[i] != b[i]) return a[i] < b[i] ? (u32)-1 : 1u; return 0; }
static inline u64 ir2c_strlen(const u8 *s) { u64 n = 0; while (s[n]) n++; return n; }
static inline u32 ir2c_strcmp(const u8 *a, const u8 *b) { u64 i = 0; while (a[i] && a[i] == b[i]) i++; return a[i] == b[i] ? 0 : (a[i] < b[i] ? (u32)-1 : 1u); }
static inline u32 ir2c_strncmp(const u8 *a, const u8 *b, u64 n) { for (u64 i = 0; i < n; i++) { if (a[i] != b[i]) return a[i] < b[i] ? (u32)-1 : 1u; if (!a[i]) return 0; } return 0; }
static inline u8 *ir2c_strchr(const u8 *s, u32 c) { for (u64 i = 0;; i++) { if (s[i] == (u8)c) return (u8*)s + i; if (!s[i]) return 0; } }
static u64 ir2c_alloc_total;
#ifdef __CPROVER__
#ifdef IR2C_MAXALLOC
static inline void *ir2c_new(u64 n) { __CPROVER_assert(n <= IR2C_MAXALLOC, "allocation request within the modelled O(N) budget"); __CPROVER_assume(n <= IR2C_MAXALLOC); ir2c_alloc_total += n;
#ifdef IR2C_ALLOC_TOTAL
   __CPROVER_assert(ir2c_alloc_total <= IR2C_ALLOC_TOTAL, "total allocation within the O(N) budget");
#endif
   char *p = malloc(IR2C_MAXALLOC); __CPROVER_assume(p != 0); return p + ((IR2C_MAXALLOC - n) & ~(u64)15); }
#define IR2C_NEW_TYPED(T, n) ((u8*)ir2c_new(n))
static inline void ir2c_delete(void *p) { if (p) free((char*)p - __CPROVER_POINTER_OFFSET(p)); }
#else
static inline void *ir2c_new(u64 n) { void *p = malloc(n); __CPROVER_assume(p != 0); return p; }
#define IR2C_NEW_TYPED(T, n) ((u8*)({ u64 n_ = (n); T *p_ = malloc(sizeof(T) * (n_ / sizeof(T))); __CPROVER_assume(p_ != 0); p_; }))
static inline void ir2c_delete(void *p) { free(p); }
#endif
#define ir2c_crash() do { __CPROVER_assert(0, "MCRASH reached"); __CPROVER_assume(0); } while(0)
#else
static inline void *ir2c_new(u64 n) { ir2c_alloc_total += n; return malloc(n ? n : 1); }
#define IR2C_NEW_TYPED(T, n) ((u8*)ir2c_new(n))
static inline void ir2c_delete(void *p) { free(p); }
#define ir2c_crash() abort()
#endif
