/* prelude_base.h -- allocator, libc and abort models for ir2c-generated C.
 * Allocation modes (per job, -D at cbmc time):
 *   default           exact: malloc(n) with n as given (sizes are constants by construction of the job, rule R1)
 *   IR2C_MAXALLOC=k   bounded: every request is asserted <= k and served from a k-byte object, end-aligned to 16 bytes, so that sizes
 *                     that depend on untrusted input do not become symbolic allocation sizes                                       */
static inline u8 *ir2c_memcpy(u8 *d, const u8 *s, u64 n)
{
#ifdef __CPROVER__
   if (n == 4) { *(u32 *) d = *(const u32 *) s; return d; }
   if (n == 8) { *(u64 *) d = *(const u64 *) s; return d; }
   if (n == 2) { *(u16 *) d = *(const u16 *) s; return d; }
#endif
   for (u64 i = 0; i < n; i++) d[i] = s[i];
   return d;
}
#ifdef __CPROVER__
/* memmove through a temporary: an ordering comparison of two pointers makes CBMC reason about the numeric placement of objects (measured: the solver does not return) */
#define IR2C_MEMMOVE_MAX 96
static inline u8 *ir2c_memmove(u8 *d, const u8 *s, u64 n) { u8 tmp[IR2C_MEMMOVE_MAX]; __CPROVER_assert(n <= IR2C_MEMMOVE_MAX, "memmove length within the modelled bound"); __CPROVER_assume(n <= IR2C_MEMMOVE_MAX); for (u64 i = 0; i < n; i++) tmp[i] = s[i]; for (u64 i = 0; i < n; i++) d[i] = tmp[i]; return d; }
#else
static inline u8 *ir2c_memmove(u8 *d, const u8 *s, u64 n) { return (u8 *) memmove(d, s, n); }
#endif
static inline u8 *ir2c_memset(u8 *d, u32 c, u64 n) { for (u64 i = 0; i < n; i++) d[i] = (u8)c; return d; }
static inline u32 ir2c_memcmp(const u8 *a, const u8 *b, u64 n) { for (u64 i = 0; i < n; i++) if (a[i] != b[i]) return a[i] < b[i] ? (u32)-1 : 1u; return 0; }
/* strlen with length hints: a harness that knows the (job-constant) length of a symbolic string registers it; the model then CHECKS that the bytes really
 * form a string of that length (solver-decided) and returns the constant, so that lengths do not become symbolic merely because the content is. */
#define IR2C_MAXHINTS 6
static const u8 *ir2c_hint_ptr[IR2C_MAXHINTS]; static u64 ir2c_hint_len[IR2C_MAXHINTS]; static u32 ir2c_nhints;
void verif_strlen_hint(u8 *p, u32 len) { if (ir2c_nhints < IR2C_MAXHINTS) { ir2c_hint_ptr[ir2c_nhints] = p; ir2c_hint_len[ir2c_nhints] = len; ir2c_nhints++; } }
static inline u64 ir2c_strlen(const u8 *s)
{
   for (u32 h = 0; h < IR2C_MAXHINTS; h++) if (h < ir2c_nhints && s == ir2c_hint_ptr[h])
   {
      const u64 n = ir2c_hint_len[h];
      for (u64 i = 0; i < n; i++) __CPROVER_assert(s[i] != 0, "strlen hint: no NUL before the registered length");
      __CPROVER_assert(s[n] == 0, "strlen hint: NUL at the registered length");
      return n;
   }
   u64 n = 0; while (s[n]) n++; return n;
}
static inline u32 ir2c_strcmp(const u8 *a, const u8 *b) { u64 i = 0; while (a[i] && a[i] == b[i]) i++; return a[i] == b[i] ? 0 : (a[i] < b[i] ? (u32)-1 : 1u); }
static inline u32 ir2c_strncmp(const u8 *a, const u8 *b, u64 n) { for (u64 i = 0; i < n; i++) { if (a[i] != b[i]) return a[i] < b[i] ? (u32)-1 : 1u; if (!a[i]) return 0; } return 0; }
static inline u8 *ir2c_strchr(const u8 *s, u32 c) { for (u64 i = 0;; i++) { if (s[i] == (u8)c) return (u8*)s + i; if (!s[i]) return 0; } }
#ifndef IR2C_ALLOC_HOOK
#define IR2C_ALLOC_HOOK(n) do { } while (0)
#endif
static u64 ir2c_alloc_total;
static inline void *ir2c_new(u64 n);
static inline void ir2c_delete(void *p);
#ifdef __CPROVER__
#ifdef IR2C_MAXALLOC
static inline void *ir2c_new(u64 n) { __CPROVER_assert(n <= IR2C_MAXALLOC, "allocation request within the modelled O(N) budget"); __CPROVER_assume(n <= IR2C_MAXALLOC); ir2c_alloc_total += n;
#ifdef IR2C_ALLOC_TOTAL
   __CPROVER_assert(ir2c_alloc_total <= IR2C_ALLOC_TOTAL, "total allocation within the O(N) budget");
#endif
   char *p = malloc(IR2C_MAXALLOC); __CPROVER_assume(p != 0); return p + ((IR2C_MAXALLOC - n) & ~(u64)15); }
#define IR2C_NEW_TYPED(T, n) ((u8*)ir2c_new(n))
#define IR2C_NEW_COOKIE(T, n, c) ((u8*)ir2c_new(n))
static inline void ir2c_delete(void *p) { if (p) free((char*)p - __CPROVER_POINTER_OFFSET(p)); }
#else
static inline void *ir2c_new(u64 n) { IR2C_ALLOC_HOOK(n); void *p = malloc(n); __CPROVER_assume(p != 0); return p; }
/* the element type is recovered from the bitcast that follows operator new; with an array-new cookie that is the cookie's type, so the size is rounded UP to whole elements */
#define IR2C_NEW_TYPED(T, n) ((u8*)({ u64 n_ = (n); IR2C_ALLOC_HOOK(n_); T *p_ = malloc(sizeof(T) * ((n_ + sizeof(T) - 1) / sizeof(T))); __CPROVER_assume(p_ != 0); p_; }))
#define IR2C_NEW_COOKIE(T, n, c) ((u8*)({ u64 n_ = (n); IR2C_ALLOC_HOOK(n_); u64 k_ = (n_ - (c)) / sizeof(T); T *o_ = malloc(sizeof(T) * (k_ + 1)); __CPROVER_assume(o_ != 0); &((u8*)o_)[sizeof(T) - (c)]; }))   /* an address-of expression: the caller's NULL test folds */
static inline void ir2c_delete(void *p) { if (p) free((char*)p - __CPROVER_POINTER_OFFSET(p)); }
#endif
#define ir2c_crash() do { __CPROVER_assert(0, "MCRASH reached"); __CPROVER_assume(0); } while(0)
#else
static inline void *ir2c_new(u64 n) { ir2c_alloc_total += n; return malloc(n ? n : 1); }
#define IR2C_NEW_TYPED(T, n) ((u8*)ir2c_new(n))
#define IR2C_NEW_COOKIE(T, n, c) ((u8*)ir2c_new(n))
static inline void ir2c_delete(void *p) { free(p); }
#define ir2c_crash() abort()
#endif

#ifdef __CPROVER__
/* realloc: the old block's size comes from a small side table filled by malloc-through-realloc callers (symbolic execution cannot fold __CPROVER_OBJECT_SIZE,
 * and a copy loop of unknown length is unrolled to the bound); blocks not in the table fall back to the object size. */
#define IR2C_MAXBLOCKS 24
static void *ir2c_blk_ptr[IR2C_MAXBLOCKS]; static u64 ir2c_blk_len[IR2C_MAXBLOCKS]; static u32 ir2c_nblk;
static inline void ir2c_note_block(void *p, u64 n) { if (ir2c_nblk < IR2C_MAXBLOCKS) { ir2c_blk_ptr[ir2c_nblk] = p; ir2c_blk_len[ir2c_nblk] = n; ir2c_nblk++; } }
static inline void *ir2c_malloc_noted(u64 n) { void *p = ir2c_new(n); ir2c_note_block(p, n); return p; }
static inline void *ir2c_realloc(void *p, u64 n)
{
   if (n == 0) { ir2c_delete(p); return 0; }
   u8 *q = (u8 *) ir2c_malloc_noted(n);
   if (p)
   {
      u64 old = __CPROVER_OBJECT_SIZE(p) - __CPROVER_POINTER_OFFSET(p);
      for (u32 h = 0; h < IR2C_MAXBLOCKS; h++) if (h < ir2c_nblk && p == ir2c_blk_ptr[h]) { __CPROVER_assert(ir2c_blk_len[h] <= old, "noted block size is within the object"); old = ir2c_blk_len[h]; break; }
      const u64 k = old < n ? old : n;
      for (u64 i = 0; i < k; i++) q[i] = ((u8 *) p)[i];
      ir2c_delete(p);
   }
   return q;
}
#else
static inline void *ir2c_malloc_noted(u64 n) { return ir2c_new(n); }
static inline void *ir2c_realloc(void *p, u64 n) { return realloc(p, n); }
#endif
/* "does p point into [b, b+len]" (muscleInRange is inclusive) without ordering pointers of different objects */
#ifdef __CPROVER__
static inline u1 ir2c_ptr_in_range(const u8 *p, const u8 *b, u64 len) { if (!__CPROVER_same_object(p, b)) return 0; return (u1)(__CPROVER_POINTER_OFFSET(p) >= __CPROVER_POINTER_OFFSET(b) && __CPROVER_POINTER_OFFSET(p) <= __CPROVER_POINTER_OFFSET(b) + len); }
#else
static inline u1 ir2c_ptr_in_range(const u8 *p, const u8 *b, u64 len) { return (u1)(p >= b && p <= b + len); }
#endif
/* field-name hashing: names are job constants, any deterministic function serves (the hash decides bucket placement only; iteration order is insertion order) */
#ifndef IR2C_HASH32_DEFINED
#define IR2C_HASH32_DEFINED
static inline u32 ir2c_hash32(u8 *p, u64 n, u32 seed) { u32 h = seed; for (u64 i = 0; i < n; i++) h = h * 31u + p[i]; return h; }
#endif
