/* runtime prelude for ir2c-generated C (works under cbmc and under gcc) */
#ifndef IR2C_RT_H
#define IR2C_RT_H
#include <stdint.h>
#include <stddef.h>
#include <string.h>
#include <stdlib.h>
#include <math.h>
typedef uint8_t u1;
typedef uint8_t u8;   typedef int8_t s8;
typedef uint16_t u16; typedef int16_t s16;
typedef uint32_t u32; typedef int32_t s32;
typedef uint64_t u64; typedef int64_t s64;
typedef unsigned __int128 u128; typedef __int128 s128;

static inline float  bc_u32_f32(u32 x) { union { u32 u; float f; } t; t.u = x; return t.f; }
static inline u32    bc_f32_u32(float x) { union { u32 u; float f; } t; t.f = x; return t.u; }
static inline double bc_u64_f64(u64 x) { union { u64 u; double f; } t; t.u = x; return t.f; }
static inline u64    bc_f64_u64(double x) { union { u64 u; double f; } t; t.f = x; return t.u; }

static inline u8 *ir2c_memcpy(u8 *d, const u8 *s, u64 n);
static inline u8 *ir2c_memmove(u8 *d, const u8 *s, u64 n);
static inline u8 *ir2c_memset(u8 *d, u32 c, u64 n);
#define IR2C_memcpy(d,s,n) ((void)ir2c_memcpy((u8*)(d),(const u8*)(s),(u64)(n)))
#define IR2C_memmove(d,s,n) ((void)ir2c_memmove((u8*)(d),(const u8*)(s),(u64)(n)))
#define IR2C_memset(d,c,n) ((void)ir2c_memset((u8*)(d),(u32)(c),(u64)(n)))

static inline u16 IR2C_bswap16(u16 x) { return (u16)((x >> 8) | (x << 8)); }
static inline u32 IR2C_bswap32(u32 x) { return (x >> 24) | ((x >> 8) & 0xff00u) | ((x << 8) & 0xff0000u) | (x << 24); }
static inline u64 IR2C_bswap64(u64 x) { return ((u64)IR2C_bswap32((u32)x) << 32) | IR2C_bswap32((u32)(x >> 32)); }
static inline u8  IR2C_ctpop8(u8 x)   { u8 n = 0; for (int i = 0; i < 8; i++) n += (x >> i) & 1; return n; }
static inline u16 IR2C_ctpop16(u16 x) { u16 n = 0; for (int i = 0; i < 16; i++) n += (x >> i) & 1; return n; }
static inline u32 IR2C_ctpop32(u32 x) { u32 n = 0; for (int i = 0; i < 32; i++) n += (x >> i) & 1; return n; }
static inline u64 IR2C_ctpop64(u64 x) { u64 n = 0; for (int i = 0; i < 64; i++) n += (x >> i) & 1; return n; }
static inline u32 IR2C_ctlz32(u32 x)  { u32 n = 0; for (int i = 31; i >= 0 && !((x >> i) & 1); i--) n++; return n; }
static inline u64 IR2C_ctlz64(u64 x)  { u64 n = 0; for (int i = 63; i >= 0 && !((x >> i) & 1); i--) n++; return n; }
static inline u32 IR2C_cttz32(u32 x)  { u32 n = 0; for (int i = 0; i < 32 && !((x >> i) & 1); i++) n++; return n; }
static inline u64 IR2C_cttz64(u64 x)  { u64 n = 0; for (int i = 0; i < 64 && !((x >> i) & 1); i++) n++; return n; }

#define IR2C_OVF_uadd(T,W,a,b) ((T){ (u##W)((a)+(b)), (u1)((u##W)((a)+(b)) < (a)) })
#define IR2C_OVF_usub(T,W,a,b) ((T){ (u##W)((a)-(b)), (u1)((a) < (b)) })
#define IR2C_OVF_umul(T,W,a,b) ((T){ (u##W)((a)*(b)), (u1)((a) != 0 && (u##W)((a)*(b))/(a) != (b)) })
#define IR2C_OVF_sadd(T,W,a,b) ((T){ (u##W)((a)+(b)), (u1)((((a)^(u##W)((a)+(b))) & ((b)^(u##W)((a)+(b)))) >> (W-1)) })
#define IR2C_OVF_ssub(T,W,a,b) ((T){ (u##W)((a)-(b)), (u1)((((a)^(b)) & ((a)^(u##W)((a)-(b)))) >> (W-1)) })
#define IR2C_OVF(T,op,W,a,b) IR2C_OVF_##op(T,W,a,b)

#ifdef __CPROVER__
#define IR2C_unreachable() do { __CPROVER_assert(0, "IR2C: reached 'unreachable'"); __CPROVER_assume(0); } while (0)
#define IR2C_landingpad()  do { __CPROVER_assume(0); } while (0)
#define IR2C_trap()        do { __CPROVER_assert(0, "IR2C: trap"); __CPROVER_assume(0); } while (0)
#define IR2C_range_check(c) __CPROVER_assert((c), "IR2C: load outside !range (invalid bool/enum value)")
#else
#include <stdio.h>
#include <stdbool.h>
#define IR2C_unreachable() do { fprintf(stderr, "IR2C: reached unreachable\n"); abort(); } while (0)
#define IR2C_landingpad()  abort()
#define IR2C_trap()        abort()
#define IR2C_range_check(c) do { if (!(c)) { fprintf(stderr, "IR2C: range check failed\n"); abort(); } } while (0)
#endif

/* ordering of two pointers.  Same object: compare offsets (CBMC folds this for concrete pointers).  Different objects: compare the integer views -- a direct
 * pointer comparison makes CBMC reason about the numeric placement of objects, and the SAT solver did not return on 10 k-step programs. */
#ifdef __CPROVER__
#define IR2C_PTRCMP(a, op, b) (__CPROVER_same_object((a), (b)) ? (__CPROVER_POINTER_OFFSET(a) op __CPROVER_POINTER_OFFSET(b)) : ((u64)(a) op (u64)(b)))
#define IR2C_PTRDIFF(a, b) (__CPROVER_same_object((a), (b)) ? (u64)(s64)((u8*)(a) - (u8*)(b)) : ((u64)(a) - (u64)(b)))
#else
#define IR2C_PTRCMP(a, op, b) ((a) op (b))
#define IR2C_PTRDIFF(a, b) ((u64)(s64)((u8*)(a) - (u8*)(b)))
#endif
/* symbolic inputs / observation layer shared with the C harnesses */
#include "vsym_c.h"
#ifdef __CPROVER__
#include "vsym_cbmc.h"
#endif
#endif
