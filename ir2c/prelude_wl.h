/* interface of the generated wire-layout file (lib/wire.py gen_c), for ir2c-generated C */
u32 wl_total(void); u32 wl_full(void); u32 wl_nvals(void); u32 wl_pristine(void); u32 wl_concrete_strings(void);
void wl_encode(u8 * V, u8 * b);
const void * wl_fields_ptr(void); const void * wl_msgs_ptr(void); const void * wl_lens_ptr(void); const void * wl_subs_ptr(void); u32 wl_nmsgs_fn(void);
/* allocation budget of the layout job ("never allocates more than a fixed multiple of N"): asserted by the allocator models of prelude_base.h */
u32 wl_alloc_one(void);
#define IR2C_ALLOC_HOOK(n) do { if (wl_alloc_one()) { __CPROVER_assert((n) <= wl_alloc_one(), "allocation request within the O(N) per-request budget"); __CPROVER_assume((n) <= wl_alloc_one()); } } while (0)   /* the assume ends the path: a request beyond the budget is reported, not modelled */
