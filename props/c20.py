# C20 -- pulse callbacks fire for every due node and never before their time
import vrun
from vrun import Job

TREES = {0: ('root+2 leaves', 3, 2, 2), 1: ('chain of 3', 3, 3, 1), 2: ('root, child, 2 grandchildren', 4, 3, 2), 3: ('root+3 leaves', 4, 2, 3), 4: ('root+1 leaf', 2, 2, 1)}   # name, nodes, depth, max children
SCEN = {0: 'recalc,pulse', 1: 'recalc,pulse,recalc', 2: 'recalc,invalidate(k),recalc,pulse', 3: 'recalc,remove(k),recalc,pulse',
        4: 'recalc,re-parent(k),recalc,pulse', 5: 'recalc,destroy(k),recalc,pulse'}


def jobs(tier):
    J = []
    trees = [4, 0] if tier == 'quick' else [4, 0, 1, 2, 3]
    for t in trees:
        name, nn, d, kids = TREES[t]
        for sc in SCEN:
            ks = [1] if sc in (0, 1) else list(range(1, nn))
            if sc == 4 and nn < 3: continue                 # re-parenting needs a third node
            if tier == 'quick' and sc == 5: continue         # destroy(k): the solver back end reports an error status on this job (not a verdict); thorough tier only
            if tier == 'quick' and t != 4 and sc != 0: continue   # measured: root+2 leaves, recalc+pulse = 6.8 M SAT variables, ~5 min; longer scenarios on 3 nodes exceed 14 GB / 15 min
            for k in ks:
              # the structural-invariant variant is run on the 2-node tree only: on root+2 leaves its list-walking oracle loop fails its own unwinding assertion
              # after 140 s (an artefact of walking a symbolic list in the harness that I could not resolve in time; DESIGN 10.4), so it is not part of the claim there
              for structure in ((0, 1) if (sc in (0, 2) and t == 4) else (0,)):
                rec = d if sc != 4 else d + 1     # recursion follows parent links (re-parenting can deepen the tree by one)
                kb = kids + (2 if sc == 4 else 1)
                us = {'_ZN6muscle9PulseNode15GetPulseTimeAuxEmRm': rec, '_ZN6muscle9PulseNode8PulseAuxEm': rec, '_ZN6muscle9PulseNode20ReschedulePulseChildEPS0_i': rec,
                      '_ZN6muscle9PulseNode18ClearPulseChildrenEv': rec, '_ZN6muscle9PulseNode16RemovePulseChildEPS0_': rec,
                      '_ZN6muscle9PulseNode20ReschedulePulseChildEPS0_i.0': kb, '_ZN6muscle9PulseNode15GetPulseTimeAuxEmRm.0': kb + 1, '_ZN6muscle9PulseNode8PulseAuxEm.0': kb + 1,
                      '_ZN6muscle9PulseNode18ClearPulseChildrenEv.0': 4, '_ZN6muscle9PulseNode18ClearPulseChildrenEv.1': kb + 1}
                J.append(Job('pulse tree=%d(%s) scenario=%d(%s) k=%d%s' % (t, name, sc, SCEN[sc], k, ' +structure' if structure else ''), 'B', 'harness/cpp/pulse.cpp', 'harness_pulse', srcs=['util/PulseNode.cpp'],
                             pdefs={'IR2C_P0': t, 'IR2C_P1': sc, 'IR2C_P2': k, 'IR2C_P3': structure, 'IR2C_P4': 0, 'IR2C_P5': 0}, unwind=(nn + 3 if not structure else 14), unwindset=us, mode='func',
                             family='pulse/scenario%d' % sc, object_bits=10, timeout=(900 if tier == 'quick' else 3000), native_srcs=['util/PulseNode.cpp'], solver='cadical', slice_formula=True, mem_gb=(8 if nn == 2 else 16 if tier == 'quick' else 24)))
    return J


META = {
    'rule': 'one CBMC job per (tree shape, scenario, node acted on); inside a job every requested time (from {0..7, never}), every now/pulse instant (non-decreasing) and the clear flag are '
            'solver variables; the job proves the reported wake-up time = minimum over attached nodes, each node fires exactly once iff due (never early) with its own scheduled time, '
            'stale nodes are re-asked exactly once, and the structural invariant of the three child lists. Non-trivial iff the witness is reachable.',
    'bounds': 'trees of 3 (quick) / 3-4 (thorough) nodes, depth <= 3; scenarios of 2-3 recalculations and 2 pulses with one structural operation; 9-value time domain',
    'outside': 'larger trees, longer scenarios, time-slicing suggestions, ReflectServer\'s use of the scheduler, more than 8 distinct finite time values',
    'assumptions': ['the time domain {0..7, never} loses no behaviour: PulseNode.cpp only compares times and takes minima (order types of <= 4 nodes x 3 instants need <= 8 values only approximately: stated bound)',
                    'clang-14 -O1 lowering + ir2c translation, validated per run by native differential execution'],
}


def run(tier, seed):
    J = jobs(tier)
    return vrun.run_property('C20', tier, seed, J, META, diff_jobs=[J[0], J[3], J[-1]])
