# C09 -- Hashtable behaves as an ordered map (bounded histories; keys in a 6-value domain and the hash function symbolic)
import itertools
import vrun
from vrun import Job

KINDS = {0: 'Put', 1: 'Remove', 2: 'MoveToFront', 3: 'MoveToBack', 4: 'Clear'}


def jobs(tier):
    J = []
    seqs = [(0, a, 99, 99) for a in range(5)] if tier == 'quick' else [(0, a, b, 99) for a in range(5) for b in range(5)]
    for s in seqs:
        J.append(Job('hashtable ' + ' ; '.join(KINDS[k] for k in s if k != 99), 'B', 'harness/cpp/hashtable.cpp', 'harness_ht',
                     pdefs={'IR2C_P0': s[0], 'IR2C_P1': s[1], 'IR2C_P2': s[2], 'IR2C_P3': s[3], 'IR2C_P4': 0, 'IR2C_P5': 0}, extra_clang=['-fno-inline'], unwind=12, mode='func', family='hashtable',
                     object_bits=10, timeout=(280 if tier == 'quick' else 1200), mem_gb=8))
    return J
