# C09 -- Hashtable behaves as an ordered map and its iterators survive any mutation
# (bounded: a prefix of n distinct symbolic keys, then one operation with symbolic arguments, an optional live iterator, hash function chosen by the solver)
import vrun
from vrun import Job

OPS = {0: 'Put', 1: 'Remove', 2: 'MoveToFront', 3: 'MoveToBack', 4: 'Clear', 5: 'MoveToBefore', 6: 'MoveToBehind', 7: 'MoveToPosition', 8: 'PutAtFront', 9: 'PutAtBack',
       10: 'PutBefore', 11: 'PutBehind', 12: 'PutAtPosition', 13: 'RemoveFirst', 14: 'RemoveLast', 15: 'SortByKey', 16: 'SortByValue', 17: 'EnsureSize', 18: 'ShrinkToFit',
       19: 'copy', 20: 'SwapContents', 21: 'GetOrPut', 22: 'GetAndMoveToFront', 23: 'GetAndMoveToBack', 24: 'MoveToTable', 25: 'PutOrRemove', 26: 'destroy', 27: 'assign', 28: 'queries', 99: 'none'}
CLASSES = {0: 'Hashtable', 1: 'OrderedKeysHashtable', 2: 'OrderedValuesHashtable'}
SORTED_OPS = (0, 1, 4, 13, 14, 17, 18, 19, 20, 21, 24, 25, 26, 27, 28)     # the positional operations "break auto-sorting" by documentation and are not applied to the sorting classes
IT = {0: '', 1: ' it=fwd', 2: ' it=back'}


def job(tier, n, op, it=0, init=0, cls=0, c5=0):
    name = '%s n=%d %s%s%s%s' % (CLASSES[cls], n, OPS[op], IT[it], (' slots=%d' % init) if init else '', (' c=%d' % c5) if op in (4, 17, 25) else '')
    return Job(name, 'B', 'harness/cpp/hashtable.cpp', 'harness_ht',
               pdefs={'IR2C_P0': n, 'IR2C_P1': op, 'IR2C_P2': it, 'IR2C_P3': init, 'IR2C_P4': cls, 'IR2C_P5': c5}, extra_clang=['-fno-inline'], unwind=n + 4, loop_rules={'re:^(_ZL|harness_ht)': 10, 're:CreateEntriesArray|HashtableBaseI.*(D2Ev|5ClearEb)$': 22}, mode='func',
               family='hashtable/' + OPS[op], object_bits=10, timeout=(240 if tier == 'quick' else 1500), mem_gb=6)


MAXUNWIND = 12


def jobs(tier):
    J = []
    def add(*a, **k): J.append(job(tier, *a, **k))
    ns = (0, 1, 3) if tier == 'quick' else (0, 1, 2, 3, 4)
    for n in ns:
        for op in sorted(OPS):
            if op == 99: continue
            variants = [0]
            if op == 4: variants = [0, 1]
            if op == 17: variants = [n + 1, 9] if tier == 'quick' else [1, n, n + 1, 9, 20]
            if op == 25: variants = [0, 1]
            for c5 in variants:
                add(n, op, c5=c5)
                # a live iterator across the operation (forward and backward)
                if n > 0 and op not in (19, 26, 27, 28):
                    for it in ((1, 2) if (tier != 'quick' or n == 3) else (1,)): add(n, op, it=it, c5=c5)
    # growth across a reallocation: the table is first shrunk to exactly n slots, so the operation under test has to grow it (with and without live iterators)
    for n in ((2,) if tier == 'quick' else (1, 2, 3, 4)):
        for op in (0, 8, 10, 12, 21, 25, 20, 24):
            for it in (0, 1, 2):
                add(n, op, it=it, init=n, c5=(1 if op == 25 else 0))
    # the auto-sorting classes
    for cls in (1, 2):
        for n in ((0, 2, 3) if tier == 'quick' else (0, 1, 2, 3, 4)):
            for op in SORTED_OPS:
                for c5 in ([0, 1] if op == 25 else [n + 1] if op == 17 else [0]):
                    add(n, op, cls=cls, c5=c5)
                    if n > 0 and op in (0, 1, 4, 13, 14, 17, 21, 25) and (tier != 'quick' or n == 3): add(n, op, it=1, cls=cls, c5=c5)
        add(2, 0, cls=cls, init=2); add(2, 0, cls=cls, init=2, it=1)
    return J


META = {
    'rule': 'one CBMC job per (table class, prefix length n, operation, live-iterator mode, initial slot count); inside a job the n prefix keys (pairwise distinct, domain of 6), '
            'every value, the operation\'s key/other-key/position arguments, the number of steps the live iterator has taken, the arbitrary key and position of the final queries '
            'and the HASH FUNCTION (a table of six 6-bit hash codes, so every collision pattern) are solver variables; the job proves: status/return values as documented, '
            'size, forward and backward iteration order, Get/ContainsKey/GetWithDefault/GetKeyAt/IndexOfKey/first/last agree with an array-based ordered map; '
            'the live iterator keeps its current pair, never yields a removed entry, yields nothing twice in the rest of its traversal, and (when the operation did not '
            'reorder the surviving entries) continues with exactly the surviving entries in their order, skipping none. Non-trivial iff the end-of-harness witness is reachable.',
    'bounds': 'prefix n in {0,1,3} (quick) / 0..4 (thorough) entries + 1 operation (+1 second table entry); key domain 6; values 2 bits; hash codes 6 bits; slot counts 7 (default), '
              'n (forced growth to 2n) and EnsureSize targets up to 20; loop unwind 12 with unwinding assertions',
    'outside': 'histories longer than prefix+1 operation (the prefix only uses Put); tables above 20 slots, hence the 8/16-bit and 16/32-bit index-width boundaries at 255 and 65535 slots '
               '(each job would need arrays of that many entries); key/value types other than the harness POD key and uint32; Intersect/Remove(table)/Put(table); ImmutableHashtablePool; '
               'allocation failure; the thread-safety fallback of iterators created on another thread',
    'assumptions': ['operator new never fails', 'clang-14 -O1 -fno-inline lowering of Hashtable.h / HashtableIterator.h, translated by ir2c; validated per run by native differential execution',
                    'hash codes restricted to 6 bits: the table uses a hash code only through (code % slots) and equality, and 64 > every slot count in the bound'],
}


def run(tier, seed):
    J = jobs(tier)
    seen = set(); dj = []
    for j in J:
        k = (j.pdefs['IR2C_P1'], j.pdefs['IR2C_P4'])
        if k not in seen and j.pdefs['IR2C_P0'] == 3 and j.pdefs['IR2C_P2'] in (0, 1): seen.add(k); dj.append(j)
    return vrun.run_property('C09', tier, seed, J, META, diff_jobs=dj[:40])
