# C14 -- Query filters evaluate as documented, survive archiving, tolerate bad archives
import vrun
from vrun import Job

SRCS = ['regex/QueryFilter.cpp', 'message/Message.cpp', 'util/String.cpp', 'util/ByteBuffer.cpp']
NATIVE_SRCS = SRCS + ['util/StringTokenizer.cpp', 'util/Directory.cpp', 'util/FilePathInfo.cpp', 'syslog/SysLog.cpp', 'system/SetupSystem.cpp', 'system/StackTrace.cpp', 'dataio/FileDataIO.cpp',
                      'regex/StringMatcher.cpp', 'util/MiscUtilityFunctions.cpp', 'util/NetworkUtilityFunctions.cpp', 'util/SocketMultiplexer.cpp']
COMMON = dict(srcs=SRCS, native_srcs=NATIVE_SRCS, native_defs={'VERIF_HAVE_SYSLOG': 1, 'VERIF_HAVE_SETUPSYSTEM': 1}, models=('models/base.def', 'models/message.def', 'models/qfilter.def'), preludes=('prelude_base.h',),
              mode='func', object_bits=12, ir2c_flags=['--split-struct-all', 'struct.muscle::String::LongStringData'], extra_clang=['-DDISABLE_OBJECT_POOLING', '-DMUSCLE_AVOID_TAGGED_POINTERS', '-fno-inline'])

KINDS = {0: 'what', 1: 'exists', 2: 'int8', 3: 'int16', 4: 'int32', 5: 'int64', 6: 'bool', 7: 'min', 8: 'max', 9: 'and', 10: 'or', 11: 'nand', 12: 'nor', 13: 'xor', 14: 'message', 15: 'badarchive', 16: 'float', 17: 'double'}


def job(tier, kind, n=0, arch=0, other=0, p4=0, p5=0):
    name = 'qf %s n=%d%s%s%s' % (KINDS[kind], n, (' archived/%x' % p5) if arch else (' p=%x' % p5) if kind in (1, 14) else '', ' othertype' if other else '', (' v=%d' % p4) if 7 <= kind <= 15 else '') + ((' w=%d' % p5) if kind == 15 else '')
    return Job(name, 'B', 'harness/cpp/qfilter.cpp', 'harness_qf', pdefs={'IR2C_P0': kind, 'IR2C_P1': n, 'IR2C_P2': arch, 'IR2C_P3': other, 'IR2C_P4': p4, 'IR2C_P5': p5},
               unwind=12, family='qfilter/' + KINDS[kind], timeout=(240 if tier == 'quick' else 900), mem_gb=4, **COMMON)


def num_p5(idx, op, mop, usedef): return idx | (op << 2) | (mop << 5) | (usedef << 8)


def arch_variants(tier, kind, n):
    """P5 values for an archived job of this kind: the conditionally-archived parameters are job constants"""
    if kind == 0: return [0, 1, 2, 3]
    if kind == 1: return [i | (sel << 2) for i in ((0, 1) if tier == 'quick' else (0, 1, 2, 3)) for sel in (0, 1, 2, 3)] if n else [0, 1 | (1 << 2)]
    if kind in (2, 3, 4, 5, 6, 16, 17):
        if tier == 'quick':
            return [num_p5(0, 0, 0, 0), num_p5(1, 1, 1, 0), num_p5(2, 4, 4, 1), num_p5(0, 5, 6, 1), num_p5(3, 6, 7, 0)] if n else [num_p5(0, 2, 0, 1), num_p5(1, 3, 2, 0)]
        return [num_p5(*t) for t in ((0, 0, 0, 0), (1, 1, 1, 0), (2, 4, 4, 1), (0, 5, 6, 1), (3, 6, 7, 0), (0, 2, 2, 1), (1, 3, 3, 1), (2, 0, 5, 0), (3, 1, 0, 1), (0, 4, 1, 0), (1, 5, 4, 1), (2, 2, 6, 0))]
    if kind in (7, 8): return [0, 1, 2, 3]
    if kind == 14: return [0, 1, 3] if tier != 'quick' else [0, 1]
    return [0]


def slow(kind, n, arch, p4, p5):
    """jobs that do not finish within the quick budget (measured, 250 s timeouts): evaluating a RESTORED filter on a Message that has fields, restoring a combinator
    (its children come back through the global factory), and the bad archive with an unrestorable child.  They are sampled in the thorough tier only.
    (Failure paths that hand a status-carrying or NULL Ref on were in this list until Ref::SetStatusAux was modelled, models/message.def.)"""
    if kind == 15: return p4 == 4
    if arch: return n > 0 or kind == 14 or (7 <= kind <= 13 and p4 > 0)      # combinators WITHOUT children archive and restore within the budget
    return False


def jobs(tier):
    J = []
    def put(kind, n, arch, other, p4, p5):
        if slow(kind, n, arch, p4, p5) and (tier == 'quick' or (n * 7 + kind * 3 + p4 + p5) % 11 != 0): return     # thorough: a sample of the slow jobs (each may use its whole 900 s)
        J.append(job(tier, kind, n, arch, other, p4, p5))
    def add(kind, n=0, arch=0, other=0, p4=0):
        if not arch:
            if kind == 1: [put(kind, n, 0, other, p4, sel << 2) for sel in (0, 1, 2, 3)]
            elif kind == 14: [put(kind, n, 0, other, p4, i) for i in ((0, 1, 2) if n else (0, 1))]
            else: put(kind, n, 0, other, p4, 0)
            return
        for m in arch_variants(tier, kind, n): put(kind, n, 1, other, p4, m)
    for arch in (0, 1):
        add(0, 0, arch)
        for n in ((0, 1, 2) if tier == 'quick' else (0, 1, 2, 3)):
            add(1, n, arch)
            for kind in (2, 3, 4, 5, 6, 16, 17): add(kind, n, arch)
            for mode in (0, 1, 2):
                if arch and mode == 2: continue     # a default sub-Message held by a non-counting reference cannot be archived by reference
                add(14, n, arch, p4=mode)
        for kind in (3, 4): add(kind, 2, arch, other=1)
        for kind in range(7, 14):
            for kids in (0, 1, 2, 3):      # 0: the documented verdict of a combinator without children (true for And/Or/min, false for Nand/Nor/max/Xor)
                add(kind, 0, arch, p4=kids)
    for v in range(6):
        for w in ((0, 1, 2, 3) if v in (0, 4) else (0,)): put(15, 0, 0, 0, v, w)
    return J


META = {
    'rule': 'one CBMC job per (filter kind, number of items in the tested field, direct / through-the-archive, field type matching or not, child count); inside a job the Message\'s '
            'what-code and every field value, the filter\'s operator byte (all 256 values), mask operator byte (all 256), operand, mask, assumed default, use-default flag, item index, '
            'what-code ranges of child filters and the threshold are solver variables (float/double items and operands range over every bit pattern incl. NaN, -0, inf); the job proves Matches() == a reference evaluator written from QueryFilter.h\'s documentation, '
            'that evaluation leaves the Message (what, field set, type, count, values) and the caller\'s reference untouched, and (archived jobs) that SaveToArchive -> '
            'MuscleQueryFilterFactory::CreateQueryFilter(archive) yields a filter of the same class that IsEqualTo the original and gives the same verdict. Non-trivial iff the witness is reachable.',
    'bounds': 'fields with 0..2 (thorough 0..3) items, item index 0..3, combinators over 1..3 what-code children, one level of sub-Message',
    'outside': 'StringQueryFilter / RawDataQueryFilter / NodeName / ChildCount (regex engine and DataNode: the C library regex is outside the encoding), float/double/Point/Rect operands, '
               'the expression parser CreateQueryFilterFromExpression, nested combinators, memory safety of SetFromArchive on hostile archives (only documented verdicts and modelled crashes are checked)',
    'assumptions': ['built with -DDISABLE_OBJECT_POOLING, -DMUSCLE_AVOID_TAGGED_POINTERS, -fno-inline', 'field-name hashing modelled by a deterministic hash', 'operator new never fails',
                    'regcomp/regexec/regfree and the printing helpers are stubbed as unreachable (a job reaching them fails its MCRASH assertion)',
                    'clang-14 -O1 lowering + ir2c translation, validated per run by native differential execution'],
}


def run(tier, seed):
    J = jobs(tier)
    return vrun.run_property('C14', tier, seed, J, META, diff_jobs=[j for j in J if j.name in ('qf int32 n=2', 'qf int16 n=0 archived/4d', 'qf min n=0 v=3', 'qf message n=2 p=1 v=0')])
