# C16 -- Queue behaves as an ideal double-ended sequence under every operation sequence (inductive step from an arbitrary valid ring state)
import vrun
from vrun import Job

OPS1 = ['addtail', 'addhead', 'addtaildef', 'removehead', 'removetail', 'removeheaddef', 'removeheadmulti', 'removetailmulti', 'insert', 'removeat', 'replaceat', 'getters', 'swap',
        'reverse', 'ensurecanadd', 'shrink', 'normalize', 'clear', 'fastclear', 'indexof', 'removefirst', 'removelast', 'removeall', 'sort', 'insertsorted', 'copy', 'arraypointer']
OPS_ARR = ['addtailmulti_a', 'addheadmulti_a', 'insertitems_a']          # P2 = number of array items
OPS_Q2 = ['assign', 'swapcontents', 'compare']                           # P3,P2 = capacity, count of the second queue
OPS_MULTI_Q = ['addtailmulti_q', 'addheadmulti_q', 'insertitems_q']      # + P4 = start index class, P5 = count class
OPS_SELF = ['addtailmulti_self', 'addheadmulti_self', 'insertitems_self']


def shapes(tier):
    caps = [3, 4, 6] if tier == 'quick' else [3, 4, 5, 6, 7, 9]
    out = []
    for c in caps:
        for n in range(0, c + 1):
            if tier == 'quick' and ((c == 6 and n not in (0, 3, 5, 6)) or (c == 4 and n == 1)): continue
            if tier != 'quick' and c >= 7 and n not in (0, 1, 2, c // 2, c - 1, c): continue
            out.append((c, n))
    return out


BIG = [0x80000000, 0xffffffff]


def start_count_classes(n2, tier):
    """(P4,P5) = (start index, count) constants: in-range values, the boundary just past the end, and the 2^31 / 2^32-1 boundaries"""
    out = []
    starts = sorted(set(x for x in ([0, n2 - 1, n2] if tier == 'quick' else list(range(0, n2 + 2))) if x >= 0)) + (BIG[:1] if tier == 'quick' else BIG)
    for st in starts:
        avail = max(0, n2 - st)
        ks = sorted(set(x for x in ([0, avail] if tier == 'quick' else [0, avail - 1, avail, avail + 1]) if x >= 0)) + [0xffffffff]
        if tier == 'quick' and st in BIG: ks = [0, 0xffffffff]
        for k in ks: out.append((st, k))
    return out


def jobs(tier, item='int32'):
    J = []
    cd = {} if item == 'int32' else {'ITEM_OWNED': 1}
    def add(op, c, n, v):
        pd = {'IR2C_P0': c, 'IR2C_P1': n, 'IR2C_P2': 0, 'IR2C_P3': 3, 'IR2C_P4': 0, 'IR2C_P5': 0}; pd.update(v)
        name = 'queue<%s> %s cap=%d n=%d%s' % (item, op, c, n, ''.join(' %s=%s' % (k[-2:], x) for k, x in sorted(v.items())))
        J.append(Job(name, 'B', 'harness/cpp/queue.cpp', 'harness_q_' + op, pdefs=pd, cdefs=cd, unwind=(24 if op == 'sort' else max(c, pd['IR2C_P3']) + max(pd['IR2C_P2'], 3) + 4) if item == 'int32' else 26, mode='func',
                     family='queue/' + op, object_bits=12, timeout=(120 if tier == 'quick' else 600)))
    q2 = [(3, 2), (4, 3)] if tier == 'quick' else [(3, 0), (3, 1), (3, 3), (4, 2), (4, 4), (5, 3)]
    heavy = ('indexof', 'removefirst', 'removelast', 'removeall', 'sort', 'insertsorted')   # data-dependent comparison loops: path count grows with n
    for (c, n) in shapes(tier):
        for op in OPS1:
            if op == 'fastclear' and item != 'int32': continue
            if op == 'swap' and n == 0: continue
            if op in heavy and n > (3 if tier == 'quick' else 5): continue
            if op == 'insertsorted' and n == c: continue   # growth at a value-dependent position: symbolic index into a reallocation does not finish (stated)
            if op == 'insert':
                # when the queue is full the insert reallocates; with a symbolic index that path does not finish, so the index is a job constant there
                idxs = [99] if n < c else sorted(set([0, 1, n - 1, n, n + 1])) + [0xffffffff]
                for ix in idxs: add(op, c, n, {'IR2C_P4': ix})
                continue
            add(op, c, n, {})
        for op in OPS_ARR:
            for k in (0, 1, 3): add(op, c, n, {'IR2C_P2': k})
        for op in OPS_Q2:
            for (c2, n2) in q2: add(op, c, n, {'IR2C_P3': c2, 'IR2C_P2': n2})
        for op in OPS_MULTI_Q:
            for (c2, n2) in q2:
                for (st, k) in start_count_classes(n2, tier): add(op, c, n, {'IR2C_P3': c2, 'IR2C_P2': n2, 'IR2C_P4': st, 'IR2C_P5': k})
        for op in OPS_SELF:
            for (st, k) in start_count_classes(n, tier): add(op, c, n, {'IR2C_P4': st, 'IR2C_P5': k})
        for want in sorted(set([0, 1, n, c, c + 1, c + 3])):
            for extra in (0, 2):
                for flags in (0, 1, 2, 3): add('ensuresize', c, n, {'IR2C_P2': want, 'IR2C_P3': extra, 'IR2C_P4': flags})   # flags: bit0 = setNumItems, bit1 = allowShrink
        for want in sorted(set([0, n - 1])):
            if 0 <= want < n: add('ensuresize_shrinkbelow', c, n, {'IR2C_P2': want})
    return J


META = {
    'rule': 'one CBMC job per (Queue operation, capacity, item count[, operand shape / argument class]); inside a job the ring head index, every slot (also outside the live window) '
            'and every argument (within its class) are solver variables; the job proves: status/return value as documented, ideal-sequence content afterwards, representation '
            'invariant re-established. Non-trivial iff the end-of-harness witness is reachable.',
    'bounds': 'capacity 3..6 (quick) / 3..9 (thorough), every item count 0..capacity (sub-sampled above capacity 6), multi-operations with <= 3..4 operand items; arguments that '
              'determine an allocation size (EnsureSize request, number of items a multi-add really adds) are fixed per job, all other arguments are symbolic',
    'outside': 'capacities above the bound, item types other than int32 and the owning harness type, QueueIterator, allocation failure',
    'assumptions': ['operator new never fails', 'clang-14 -O1 lowering of Queue.h, translated by ir2c; validated per run by native differential execution against a g++ build',
                    'the induction over operation sequences is by the stated representation invariant: each job starts from an ARBITRARY state satisfying it and re-establishes it'],
}


def run(tier, seed):
    J = jobs(tier)
    if tier != 'quick': J += [j for j in jobs('quick', item='owned')]
    else:
        # owning item type: the operations that vacate, move or expose slots, on the shapes where the ring can wrap
        ops = ('removehead', 'removetail', 'removeat', 'removeheadmulti', 'removetailmulti', 'normalize', 'clear', 'insert', 'addtail', 'addhead')
        # heap-backed shapes only: with the inline array (capacity 3) of an owning type most of these jobs exceed the quick budget (measured: 120 s timeouts / 8 GB)
        J += [j for j in jobs('quick', item='owned') if j.entry[len('harness_q_'):] in ops and j.pdefs['IR2C_P0'] == 6 and j.pdefs['IR2C_P1'] in (0, 3, 5) and j.pdefs['IR2C_P4'] in (0, 99)]
    seen = set(); dj = []
    for j in J:
        if j.entry not in seen and j.pdefs['IR2C_P0'] == 4 and j.pdefs['IR2C_P1'] in (2, 3) and 'int32' in j.name: seen.add(j.entry); dj.append(j)
    return vrun.run_property('C16', tier, seed, J, META, diff_jobs=dj)
