# C01 -- Message serialisation round-trips exactly and its size is exact (C++ Message class; also serves the C++ side of C08)
import vrun, wire
from vrun import Job

SRCS = ['message/Message.cpp', 'util/String.cpp', 'util/ByteBuffer.cpp']
NATIVE_SRCS = SRCS + ['util/StringTokenizer.cpp', 'util/Directory.cpp', 'util/FilePathInfo.cpp', 'syslog/SysLog.cpp', 'system/SetupSystem.cpp', 'system/StackTrace.cpp', 'dataio/FileDataIO.cpp',
                      'regex/StringMatcher.cpp', 'util/MiscUtilityFunctions.cpp', 'util/NetworkUtilityFunctions.cpp', 'util/SocketMultiplexer.cpp']
COMMON = dict(srcs=SRCS, native_srcs=NATIVE_SRCS, native_defs={'VERIF_HAVE_SYSLOG': 1, 'VERIF_HAVE_SETUPSYSTEM': 1, 'VERIF_ALLOC_BUDGET': 1}, models=('models/base.def', 'models/message.def'), preludes=('prelude_wl.h', 'prelude_base.h'), mode='func', object_bits=12,
              ir2c_flags=['--split-struct-all', 'struct.muscle::String::LongStringData'], extra_clang=['-DDISABLE_OBJECT_POOLING', '-DMUSCLE_AVOID_TAGGED_POINTERS', '-fno-inline'])


def depth(m):
    d = 1
    for n, t, items in m.fields:
        if t == 'message': d = max(d, 1 + max([depth(x) for x in items] or [0]))
    return d


def jobs(tier): return msg_jobs(tier)


def msg_jobs(tier, entries=('harness_msg_flatten', 'harness_msg_flatten_pre', 'harness_msg_parse', 'harness_msg_parse_ref', 'harness_msg_build')):
    J = []
    for sname, m in wire.std_shapes(tier).items():
        gen = wire.gen_c(m, concrete_strings=True)
        d = depth(m) + 1
        for entry in entries:
            if sname == 'raw00' and entry in ('harness_msg_flatten', 'harness_msg_flatten_pre', 'harness_msg_build'): continue      # Message::AddData refuses zero-length items by design (B_BAD_ARGUMENT); the reader side is checked
            # the combined round trip incl. Message::operator== does not finish in 300 s (measured, every shape); it is attempted in the thorough tier only.
            # The round trip follows from flatten (API -> reference bytes) + parse_ref (reference bytes -> values) + parse (re-serialisation identical).
            if tier == 'quick' and entry == 'harness_msg_build': continue
            if entry == 'harness_msg_flatten_pre' and not any(t not in ('string', 'message') and not (isinstance(t, tuple) or t == 'raw') and (n if isinstance(n, int) else len(n)) >= 2 for (_, t, n) in m.fields): continue   # only shapes with a fixed-size field of >= 2 items
            J.append(Job('%s %s' % (entry[8:], sname), 'B', 'harness/cpp/msg_wire.cpp', entry, gen_c=gen, unwind=24, loop_rules={entry: 170},
                         unwindset={'_ZL5BuildRN6muscle7MessageEjPKh': d, '_ZL11CheckValuesRKN6muscle7MessageEjPKh': d}, family='msg/' + entry[8:], timeout=(300 if tier == 'quick' else 1200), mem_gb=3, **COMMON))
    return J


META = {
    'rule': 'one CBMC job per (direction, message shape); every item value (all bit patterns of every numeric type incl. NaN/-0/inf, every raw byte, the what code) is a solver variable; '
            'build: Add* -> FlattenedSize()==reference size, Flatten bytes == reference encoding (lib/wire.py), Unflatten of those bytes yields an equal Message with bit-identical '
            'values and byte-identical re-serialisation; parse_ref: the reference bytes are accepted and every value is read back. Non-trivial iff the witness is reachable.',
    'bounds': 'shapes of lib/wire.py std_shapes (all common types, 1-4 items, blobs 0-3 bytes, 1-3 fields, nesting 1 (thorough 2)); string CONTENT bytes are job constants (String computes its '
              'length by scanning its content, which would make every length symbolic), string lengths 0-3',
    'outside': 'symbolic string content, counts > 4, > 3 fields, nesting > 2, pointer/tag (non-flattenable) fields, templated flattening, the object pools',
    'assumptions': ['built with muscle\'s own -DDISABLE_OBJECT_POOLING (pools replaced by new/delete) and -DMUSCLE_AVOID_TAGGED_POINTERS, and -fno-inline (so that objects are allocated with their type)',
                    'field-name hashing is modelled by a deterministic polynomial hash (names are job constants; the hash only places buckets)', 'operator new never fails',
                    'the reference encoder lib/wire.py is a faithful reading of the documented layout',
                    'clang-14 -O1 lowering + ir2c translation, validated per run by native differential execution'],
}


def run(tier, seed):
    J = msg_jobs(tier)
    return vrun.run_property('C01', tier, seed, J, META, diff_jobs=[j for j in J if j.name in ('msg_build mix', 'msg_parse_ref msg1')])
