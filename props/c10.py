# C10 -- reference-counted and pooled objects are released exactly once, never early (sequential histories; schedules are outside, see DESIGN 5.6)
import itertools
import vrun
from vrun import Job

KINDS = {0: 'SetRef(obj)', 1: 'a=b', 2: 'Reset', 3: 'SwapContents', 4: 'move-assign', 5: 'temporary copy', 6: 'hand-over via temporary'}


def jobs(tier):
    J = []
    if tier == 'quick':
        seqs = [s for s in itertools.product(range(7), repeat=3) if s[0] == 0]          # the first useful operation is always an adoption
        seqs = [s + (99,) for s in seqs]
    else:
        seqs = [(0,) + s for s in itertools.product(range(7), repeat=3)]
    for s in seqs:
        J.append(Job('refcount ' + ' ; '.join(KINDS[k] for k in s if k != 99), 'B', 'harness/cpp/refcount.cpp', 'harness_refcount',
                     pdefs={'IR2C_P0': s[0], 'IR2C_P1': s[1], 'IR2C_P2': s[2], 'IR2C_P3': s[3], 'IR2C_P4': 0, 'IR2C_P5': 0}, extra_clang=['-DMUSCLE_AVOID_TAGGED_POINTERS'],
                     unwind=(14 if tier == "quick" else 40), mode="func", family="refcount", object_bits=10, timeout=(120 if tier == 'quick' else 600)))
    return J


META = {
    'rule': 'one CBMC job per sequence of operation KINDS on three Ref variables and two heap objects; inside a job the operands of every operation (which Ref, which other Ref, which '
            'object) are solver variables; after every step the job proves: destructor ran exactly once iff the last designating Ref is gone and never earlier, reference count = number '
            'of designating Refs, every Ref designates what the ideal history says. Non-trivial iff the witness is reachable.',
    'bounds': 'three Ref variables, two objects, sequences of 3 (quick) / 4 (thorough) operations starting with an adoption, all 7 operation kinds',
    'outside': 'thread interleavings (the coroutine encoding of DESIGN 3.5 is not built: the schedule quantifier of C10 is NOT covered), ObjectPool, more Refs/objects/steps, '
               'non-counting (DummyRef) references, EnsureRefIsPrivate/Clone',
    'assumptions': ['built with -DMUSCLE_AVOID_TAGGED_POINTERS: CBMC\'s integer view of a pointer cannot satisfy PointerAndBits\' alignment assertion; the option changes only how the two flag bits are stored next to the pointer',
                    'operator new never fails', 'clang-14 -O1 lowering + ir2c translation, validated per run by native differential execution'],
}


def run(tier, seed):
    J = jobs(tier)
    return vrun.run_property('C10', tier, seed, J, META, diff_jobs=J[:3])
