# C08 -- all Message implementations agree on one wire format, byte for byte (reference: lib/wire.py, written from the documented layout)
import vrun, wire
from vrun import Job

UM_SRC = ['lang/c/micromessage/MicroMessage.c']
MM_SRC = ['lang/c/minimessage/MiniMessage.c']


def depth(m):
    d = 1
    for n, t, items in m.fields:
        if t == 'message': d = max(d, 1 + max([depth(x) for x in items] or [0]))
    return d


def all_msgs(m):
    out = [m]
    for n, t, items in m.fields:
        if t == 'message':
            for x in items: out += all_msgs(x)
    return out


def c_jobs(tier):
    J = []
    for sname, m in wire.std_shapes(tier).items():
        toks = wire.tokens(m); gen = wire.gen_c(m); full = wire.size(toks); d = depth(m) + 1
        nf = max(len(x.fields) for x in all_msgs(m)) + 2
        items = 6                                    # shapes have <= 4 items per field
        big = max(full, wire.WL_MAXVALS) + 2          # harness loops over encoded bytes / payload values
        rec = {'build': d, 'check_parsed': d, 'MMFreeMessage': d + 1, 'MMClearMessage': d + 1, 'FreeMMessageField': d + 1, 'MMUnflattenMessage': d, 'MMGetFlattenedSize': d,
               'GetMMessageFieldFlattenedSize': d, 'MMFlattenMessage': d, 'FlattenMMessageField': d, 'IncreaseCurrentFieldDataLength': d + 1, 'IncreaseParentValidBytesBy': d + 1,
               'MMUnflattenMessage.0': nf, 'MMGetFlattenedSize.0': nf, 'MMFlattenMessage.0': nf, 'MMFlattenMessage.1': nf, 'LookupMMessageField.0': nf, 'MMClearMessage.0': nf,
               'GetFieldByNameAux.0': nf, 'GetNumItemsInField.0': items, 'UMFindMessage.0': items, 'UMFindData.0': items, 'UMGetString.0': items, 'UMGetString.1': 8}
        rules = {'harness_um_build': big, 'harness_um_parse_ref': big, 'harness_mm_build': big, 'harness_mm_parse_ref': big, 'wlv_assume_canonical': nf + 4, 'build': 10, 'check_parsed': 10}
        for entry, harness, srcs in (('harness_um_build', 'harness/c/um_wire.c', UM_SRC), ('harness_um_parse_ref', 'harness/c/um_wire.c', UM_SRC),
                                     ('harness_mm_build', 'harness/c/mm_wire.c', MM_SRC), ('harness_mm_parse_ref', 'harness/c/mm_wire.c', MM_SRC)):
            mm = entry.startswith('harness_mm')
            # MiniMessage keeps its fields in a linked list of untyped heap blocks; CBMC loses the pointers stored in such blocks to byte granularity, so
            # multi-field and nested shapes do not finish within the quick budget (measured: > 120 s).  They are attempted in the thorough tier only.
            if tier == 'quick' and (mm and (len(m.fields) > 1 or d > 2) or (entry == 'harness_um_parse_ref' and d > 2)): continue
            J.append(Job('%s %s' % (entry[8:], sname), 'A', harness, entry, srcs=srcs, gen_c=gen, unwind=10, unwindset=dict(rec), loop_rules=dict(rules, verif_memcpy=2 * full + 161, verif_memset=2 * full + 161),
                         mode='mem', object_bits=12, family='c08/' + entry[8:], timeout=(120 if tier == 'quick' else 600),
                         force_include=(['harness/c/valloc.h'] if mm else []), cdefs=({'VERIF_ALLOC_ONE': 2 * full + 160, 'VERIF_ALLOC_TOTAL': 64 * full + 4096} if mm else {})))
    return J


META = {
    'rule': 'one CBMC job per (implementation, direction, message shape); every item value (all bit patterns of every numeric type, every string/blob byte, the what code) is a solver '
            'variable; the job proves byte-for-byte equality with the reference encoding (build) or value-for-value equality with the encoded values (parse). Non-trivial iff the witness is reachable.',
    'bounds': 'the shapes of lib/wire.py std_shapes: every common type, 1-4 items, strings/blobs of 0-3 bytes, 1-3 fields, one (thorough: two) nesting levels',
    'outside': 'lang/python3 (not executable symbolically here); shapes beyond the listed ones; for the C++ Message class string CONTENT bytes are job constants (lengths 0-3) and zero-length raw items cannot be written through Message::AddData; the 8-byte stream frame is compared in C03 for the C gateways only',
    'assumptions': ['malloc never fails', 'the reference encoder lib/wire.py is a faithful reading of the documented layout (it shares no code with the implementations)'],
    'functions_encoded': ['Message.cpp/String.cpp/ByteBuffer.cpp closure: Message::Add*, Flatten, FlattenedSize, Unflatten, Find* (built with DISABLE_OBJECT_POOLING, MUSCLE_AVOID_TAGGED_POINTERS)', 'MicroMessage.c: UMAdd*, UMInlineAddMessage, UMFind*, UMGetString, UMFindData, UMFindMessage', 'MiniMessage.c: MMPut*Field, MMFlattenMessage, MMGetFlattenedSize, MMUnflattenMessage, MMGet*Field'],
}


def cpp_jobs(tier):
    """the C++ Message class against the same reference: writer (API -> bytes) and reader (bytes -> values); harnesses shared with C01"""
    import c01
    return [j for j in c01.msg_jobs(tier, entries=('harness_msg_flatten', 'harness_msg_parse_ref'))]


def run(tier, seed):
    J = c_jobs(tier) + cpp_jobs(tier)
    return vrun.run_property('C08', tier, seed, J, META, diff_jobs=[j for j in J if j.name in ('msg_flatten mix',)])
