# C08 -- all Message implementations agree on one wire format, byte for byte (reference: lib/wire.py, written from the documented layout)
import vrun, wire
from vrun import Job

UM_SRC = ['lang/c/micromessage/MicroMessage.c']
MM_SRC = ['lang/c/minimessage/MiniMessage.c']


def depth(m):
    d = 1
    for n, t, items in m.fields:
        if t == 'message': d = max(d, 1 + max([depth(x) for x in items] or [0]))
    return d


def c_jobs(tier):
    J = []
    for sname, m in wire.std_shapes(tier).items():
        gen = wire.gen_c(m); full = wire.size(wire.tokens(m)); d = depth(m) + 1
        rec = {'build': d, 'check_parsed': d, 'MMFreeMessage': d + 1, 'MMClearMessage': d + 1, 'FreeMMessageField': d + 1, 'MMUnflattenMessage': d, 'MMGetFlattenedSize': d,
               'GetMMessageFieldFlattenedSize': d, 'MMFlattenMessage': d, 'FlattenMMessageField': d, 'IncreaseCurrentFieldDataLength': d + 1, 'IncreaseParentValidBytesBy': d + 1}
        for entry, harness, srcs in (('harness_um_build', 'harness/c/um_wire.c', UM_SRC), ('harness_um_parse_ref', 'harness/c/um_wire.c', UM_SRC),
                                     ('harness_mm_build', 'harness/c/mm_wire.c', MM_SRC), ('harness_mm_parse_ref', 'harness/c/mm_wire.c', MM_SRC)):
            J.append(Job('%s %s' % (entry[8:], sname), 'A', harness, entry, srcs=srcs, gen_c=gen, unwind=max(full, wire.WL_MAXVALS) + 2, unwindset=rec, mode='mem', object_bits=12,
                         family='c08/' + entry[8:], timeout=(120 if tier == 'quick' else 600)))
    return J


META = {
    'rule': 'one CBMC job per (implementation, direction, message shape); every item value (all bit patterns of every numeric type, every string/blob byte, the what code) is a solver '
            'variable; the job proves byte-for-byte equality with the reference encoding (build) or value-for-value equality with the encoded values (parse). Non-trivial iff the witness is reachable.',
    'bounds': 'the shapes of lib/wire.py std_shapes: every common type, 1-4 items, strings/blobs of 0-3 bytes, 1-3 fields, one (thorough: two) nesting levels',
    'outside': 'lang/python3 (not executable symbolically here); shapes beyond the listed ones; the C++ implementation is compared with the same reference in its own jobs',
    'assumptions': ['malloc never fails', 'the reference encoder lib/wire.py is a faithful reading of the documented layout (it shares no code with the implementations)'],
    'functions_encoded': ['MicroMessage.c: UMAdd*, UMInlineAddMessage, UMFind*, UMGetString, UMFindData, UMFindMessage', 'MiniMessage.c: MMPut*Field, MMFlattenMessage, MMGetFlattenedSize, MMUnflattenMessage, MMGet*Field'],
}


def run(tier, seed):
    return vrun.run_property('C08', tier, seed, c_jobs(tier), META)
