# C17 -- String behaves as an ideal byte string across its small-buffer boundary
import vrun
from vrun import Job

CAP = 15     # inline capacity in characters: sizeof(LongStringData) - 1 on a 64-bit build; asserted against the real class by every job via GetNumAllocatedBytes of an empty String
SRCS = ['util/String.cpp']
LENS_Q = [0, 1, 14, 15, 16]
LENS_T = [0, 1, 2, 13, 14, 15, 16, 17, 20]


def jobs(tier):
    J = []
    Ls = LENS_Q if tier == 'quick' else LENS_T
    Ms = [0, 1, 3] if tier == 'quick' else [0, 1, 2, 3]
    def add(op, L, M=0, K=0):
        J.append(Job('string %s L=%d M=%d k=%d' % (op, L, M, K), 'B', 'harness/cpp/string.cpp', 'harness_s_' + op, srcs=SRCS,
                     pdefs={'IR2C_P0': L, 'IR2C_P1': M, 'IR2C_P2': K, 'IR2C_P3': 0, 'IR2C_P4': 0, 'IR2C_P5': 0}, unwind=2 * max(L, 4) + M + 24, mode='func', family='string/' + op, object_bits=10,
                     timeout=(150 if tier == 'quick' else 900), native_defs={'VERIF_STUB_ATOULL_HASH': 1}, ir2c_flags=['--split-struct', 'struct.muscle::String::LongStringData'], extra_clang=['-fno-inline'], stubs=['_ZNK6muscle6String18IsCharInLocalArrayEPKc'],
                     models=('models/base.def', 'models/string.def')))
    for L in Ls:
        for op in ('set', 'appendchar', 'appendself', 'reverse', 'flatten', 'indexof'): add(op, L)
        for M in Ms:
            for op in ('appendcstr', 'appendstr', 'prepend'): add(op, L, M)
        for M in sorted(set([0, 1, CAP, CAP + 1])):
            for op in ('swap', 'assign', 'compare'): add(op, L, M)
        for M in (0, 1, 2):
            add('startsends', L, M)
        for M in (1, 2):
            for K in sorted(set(k for k in (0, L - 1, L) if k >= 0)): add('lastindexofstr', L, M, K)      # added after seeded change C17-m2
        for M in sorted(set(k for k in (0, 1, L) if k >= 0)):
            for K in (0, 1, 2, 0xffffffff): add('replacechar', L, M, K)                                  # added after seeded change C17-m3
        for K in sorted(set(k for k in (0, 1, L - 1, L, L + 1, CAP, CAP + 1) if k >= 0)):
            for op in ('truncate', 'truncatechars'): add(op, L, 0, K)
        for K in sorted(set(k for k in (0, 1, L - 1, L) if 0 <= k <= L)):
            for op in ('appendownptr', 'setownptr'):
                # s += (s.Cstr()+k) with growth goes through String(const char *, len) -> SetCstr's scanning loop: the length becomes a function of symbolic content
                # and the job exhausts 12 GB (measured); only the no-growth cases are part of the claim
                if op == 'appendownptr' and L + (L - K) >= CAP: continue
                add(op, L, 0, K)
        for M in (0, 3, CAP + 2):
            for K in sorted(set([0, 2, M, M + 1, 0xffffffff])): add('setcstrmax', L, M, K)
        for K in (0, 1): add('clear', L, 0, K)
        for K in sorted(set([0, CAP - 1, CAP, CAP + 1, L, L + 1])): add('ensurebuf', L, 0, K)
        for (b, e) in sorted(set([(0, L), (0, 1), (1, L), (L, L), (0, L + 3), (1, 0), (max(0, L - 1), L)])):
            add('substring', L, b, e)
    return J


META = {
    'rule': 'one CBMC job per (String operation, receiver length, operand length / position); lengths fix which representation (inline <= 15 chars / heap) is live before and after, '
            'every content byte (1..255) is a solver variable; the job proves result bytes, length, NUL termination and Length() < GetNumAllocatedBytes() against a plain char-array '
            'model, including the aliasing cases (operand is the receiver itself or a pointer into its buffer). Non-trivial iff the witness is reachable.',
    'bounds': 'receiver lengths {0,1,14,15,16} (quick) / {0,1,2,13..17,20} (thorough) around the inline capacity 15; operands of 0-3 bytes (or 15/16 for whole-String operands)',
    'outside': 's += (pointer into s) when the result no longer fits the current buffer; LastIndexOf(char) (its loop steps a pointer one before the buffer, which CBMC cannot model); operations whose result length depends on content (Replace with different lengths, Trimmed, WithoutPrefix/Suffix), Arg()/numeric formatting and parsing, UTF-8 helpers, lengths above the bound',
    'assumptions': ['malloc/realloc never fail', 'String::IsCharInLocalArray is cut to an equivalent model (same-object test + offsets instead of ordering two pointers; models/string.def)', 'built with -fno-inline so that the cut applies; ir2c --split-struct keeps each byte of the inline/heap union its own cell', 'clang-14 -O1 lowering + ir2c translation, validated per run by native differential execution'],
}


def run(tier, seed):
    J = jobs(tier)
    seen = set(); dj = []
    for j in J:
        if j.entry not in seen and j.pdefs['IR2C_P0'] == 15: seen.add(j.entry); dj.append(j)
    return vrun.run_property('C17', tier, seed, J, META, diff_jobs=dj)
