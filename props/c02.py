# C02 -- parsing untrusted bytes is memory-safe, terminates, and costs O(input)
import vrun, wire
from vrun import Job

UM_SRC = ['lang/c/micromessage/MicroMessage.c']
UM_OPS = {0: 'header accessors', 1: 'UMFindBool', 2: 'UMFindInt8', 3: 'UMFindInt16', 4: 'UMFindInt32', 5: 'UMFindInt64', 6: 'UMFindFloat', 7: 'UMFindDouble',
          8: 'UMFindPoint', 9: 'UMFindRect', 10: 'UMGetString', 11: 'UMFindData', 12: 'UMFindMessage(+1 level)', 13: 'UMGetNumItemsInField', 14: 'UMGetFieldTypeCode',
          15: 'field-name iterator to exhaustion', 16: 'two accessors sharing the read-field cache'}


def um_jobs(tier):
    jobs = []
    ns = [12, 13, 24, 26, 33, 40] if tier == 'quick' else [0, 11, 12, 13, 16, 20, 24, 25, 26, 27, 30, 33, 38, 40, 44, 52, 64]
    for n in ns:
        for op in UM_OPS:
            nf = max(0, (n - 12) // 13)  # a field needs >= 12 header bytes + >= 1 data byte
            walk = n // 4 + 2     # every data-walking loop advances >= 4 bytes per iteration inside an n-byte buffer
            us = {'verif_symbolic_buffer.0': n + 1, 'GetFieldByNameAux.0': nf + 2, 'GetNumItemsInField.0': max(0, n - 24) // 16 + 3, 'UMFindMessage.0': walk,
                  'UMFindData.0': walk, 'UMGetString.0': walk, 'UMGetString.1': n + 1, 'UMIteratorAdvance.0': nf + 2, 'harness_um_parse.0': (nf + 2) if op == 15 else (n + 2)}
            jobs.append(Job('um_parse N=%d op=%d' % (n, op), 'A', 'harness/c/um_parse.c', 'harness_um_parse', srcs=UM_SRC, cdefs={'N': n, 'OP': op}, unwind=4, unwindset=us,
                            mode='mem', object_bits=12, unwind_is_property=True, family='um_parse/op%d' % op, desc=UM_OPS[op]))
    return jobs


MM_SRC = ['lang/c/minimessage/MiniMessage.c']


def depth(m):
    d = 1
    for n, t, items in m.fields:
        if t == 'message': d = max(d, 1 + max([depth(x) for x in items] or [0]))
    return d


def layout_jobs(tier, prefix, harness, entry, srcs, engine='A', shapes=None, kw=None, ranged=True, skip=None):
    """jobs over (shape, truncation length) and (shape, hostile framing word, value split)"""
    jobs = []
    S = wire.std_shapes(tier)
    for sname, m in S.items():
        if shapes and sname not in shapes: continue
        if sname == 'str00' and tier == 'quick': continue      # the shape exists for the round-trip checks (C01/C08); its hostile variants run in the thorough tier
        toks = wire.tokens(m); full = wire.size(toks); W = wire.nwords(toks); labels = wire.word_labels(toks)
        def mk(tag, gen, fam, spec=None):
            return Job('%s %s %s' % (prefix, sname, tag), engine, harness, entry, srcs=srcs, gen_c=gen, family='%s/%s' % (prefix, fam), **kw(m, full, spec))
        jobs.append(mk('full', wire.gen_c(m), 'full'))
        jobs.append(mk('garbage+3', wire.gen_c(m, garbage=3), 'garbage'))
        for t in range(0, full):
            jobs.append(mk('trunc=%d' % t, wire.gen_c(m, trunc=t), 'trunc'))
        for k in range(W):
            for spec in wire.hostile_splits(toks, k, ranged=ranged, dense=(tier != 'quick')):
                if spec[0] == 'const' and spec[1] == wire.word_values(toks)[k]: continue   # that is the 'full' job
                if skip and skip(sname, labels[k], spec): continue
                tag = 'word%d[%s]=%s' % (k, labels[k], spec[1] if spec[0] == 'const' else '%d..2^32-1' % spec[1])
                jobs.append(mk(tag, wire.gen_c(m, hostile=(k, spec)), 'hostile/' + labels[k].split('(')[0], spec + (labels[k],) if spec[0] == 'const' else spec))
    return jobs


def mm_jobs(tier):
    def kw(m, full, spec=None, tier=tier):
        d = depth(m) + 1
        T = full + 3                      # longest buffer of any job of this shape (garbage+3)
        one = 2 * full + 160
        nf = (T - 12) // 14 + 2           # a parsed field consumes >= 14 input bytes
        sub = T // 16 + 2                 # a parsed sub-message consumes >= 16 input bytes
        var = T // 4 + 2                  # a parsed string/blob consumes >= 4 input bytes
        nm = 4                            # field names of the shapes have 1 character
        items = var
        mem = one + 1
        if spec is not None:
            if spec[0] == 'const':
                if spec[2].startswith('nameLen'): nm = T
                if spec[2].startswith('numItems'): items = max(items, spec[1] + 2)
            else:
                # the hostile word is a solver variable: a size derived from it is symbolic, and loops over such a size are unrolled to the bound at
                # every call site, also in continuations that the parser's own checks make infeasible.  Keep the bound at what the bytes present allow.
                mem = T + 72
        us = {'MMUnflattenMessage': d, 'MMFreeMessage': d + 1, 'MMClearMessage': d + 1, 'FreeMMessageField': d + 1, 'MMGetFlattenedSize': d + 1, 'GetMMessageFieldFlattenedSize': d + 1,
              'MMFlattenMessage': d + 1, 'FlattenMMessageField': d + 1,
              'verif_memset.0': mem, 'verif_memcpy.0': mem, 'harness_mm_parse.0': wire.WL_MAXVALS + 1, 'harness_mm_parse.1': nf, 'harness_mm_parse.2': 162,
              'LookupMMessageField.0': nf, 'MMClearMessage.0': nf, 'MMGetFlattenedSize.0': nf, 'MMFlattenMessage.0': nf, 'MMFlattenMessage.1': nf, 'MMUnflattenMessage.0': nf,
              'MMGetNextFieldName.0': nf, 'strcmp.0': nm, 'strlen.0': nm, 'MMUnflattenMessage.1': sub, 'MMUnflattenMessage.2': sub, 'MMUnflattenMessage.4': sub, 'MMUnflattenMessage.3': var,
              'GetMMessageFieldFlattenedSize.0': items, 'GetMMessageFieldFlattenedSize.1': items, 'FlattenMMessageField.0': items, 'FlattenMMessageField.1': items,
              'FreeMMessageField.0': items, 'FreeMMessageField.1': items, 'MMPutMessageField.0': sub, 'PutMMVariableFieldAux.0': items}
        return dict(cdefs={'VERIF_ALLOC_ONE': one, 'VERIF_ALLOC_TOTAL': 16 * full + 2048}, force_include=['harness/c/valloc.h'], unwind=6, unwindset=us,
                    mode='mem', object_bits=12, unwind_is_property=True, timeout=(40 if tier == 'quick' else 300))
    shapes = ['i32x2', 'str2', 'raw2'] if tier == 'quick' else None
    def skip(sname, label, spec):
        # a hostile value here moves the framing onto SYMBOLIC payload bytes (an unknown type code makes the int32 payload the item count and item lengths; a
        # string length of 0/1 makes the string's bytes the next length word): sizes become symbolic and the job does not finish in the quick budget (measured).
        if tier != 'quick': return False
        return (sname == 'i32x2' and label.startswith('typeCode')) or (sname in ('str2', 'raw2') and (label.startswith('strLen(s[0])') or label.startswith('blobLen(w[0])')) and spec[1] in (0, 1, 2))
    return layout_jobs(tier, 'mm_parse', 'harness/c/mm_parse.c', 'harness_mm_parse', MM_SRC, shapes=shapes, kw=kw, ranged=False, skip=skip)


UF_KINDS = {0: 'ReadInt8', 1: 'ReadInt16', 2: 'ReadInt32', 3: 'ReadInt64', 4: 'ReadFlat<Point>', 5: 'ReadFlat<Rect>', 6: 'ReadCString', 7: 'SeekRelative(any)', 8: 'ReadInt16s(n<=4)',
            9: 'ReadBytes(n<=8)', 10: 'SeekTo(any)', 11: 'SeekPastPadding', 12: 'ReadLimiter+ReadInt32'}


def uf_jobs(tier):
    """C++ kernel: DataUnflattener read primitives on an exactly-sized symbolic buffer (memory-safety mode: CBMC's pointer checks on)"""
    J = []
    ns = [0, 3, 9, 17] if tier == 'quick' else [0, 1, 3, 4, 7, 8, 9, 15, 16, 17, 24]
    seqs = []
    ks = sorted(UF_KINDS)
    for a in ks:
        for b in (7, 10, 6, 2):           # every primitive followed by a seek / string / word read, then the same primitive again (cursor moved by an arbitrary seek)
            seqs.append((a, b, a))
    if tier != 'quick':
        for a in ks:
            for b in ks: seqs.append((a, b, 3))
    for n in ns:
        for sq in sorted(set(seqs)):
            J.append(Job('unflattener N=%d %s' % (n, ' ; '.join(UF_KINDS[k] for k in sq)), 'B', 'harness/cpp/unflat.cpp', 'harness_unflat',
                         pdefs={'IR2C_P0': n, 'IR2C_P1': sq[0], 'IR2C_P2': sq[1], 'IR2C_P3': sq[2], 'IR2C_P4': 0, 'IR2C_P5': 0}, unwind=n + 10, mode='mem', object_bits=10,
                         family='unflattener', timeout=(120 if tier == 'quick' else 600), ir2c_flags=['--check-range']))
    return J


def msg_jobs(tier):
    """C++ Message::Unflatten on shape-directed hostile inputs (same enumeration as for MiniMessage): truncations, trailing garbage, each framing word set to small values / boundary constants"""
    import c01
    J = []
    S = wire.std_shapes(tier)
    # quick tier: the string-array shape's error paths mostly exceed 150 s (measured: 55 of 160 hostile/truncation jobs inconclusive) -> thorough only
    # ... and so do the nested-message shape's (measured: 117 of ~130 msg1 jobs inconclusive at 100 s) -> thorough only as well
    shapes = ['i32x2'] if tier == 'quick' else list(S)
    for sname in shapes:
        m = S[sname]; toks = wire.tokens(m); full = wire.size(toks); W = wire.nwords(toks); labels = wire.word_labels(toks)
        d = c01.depth(m) + 1
        def mk(tag, gen, fam):
            return Job('msg_parse %s %s' % (sname, tag), 'B', 'harness/cpp/msg_wire.cpp', 'harness_msg_parse', gen_c=gen, unwind=24, loop_rules={'harness_msg_parse': 170}, family='msg_parse/' + fam,
                       timeout=(100 if tier == 'quick' else 900), mem_gb=3, maxalloc=None, **dict(c01.COMMON, mode=MSG_MODE))
        J.append(mk('garbage+3', wire.gen_c(m, garbage=3, concrete_strings=True, tables=True), 'garbage'))
        truncs = range(0, full) if tier != 'quick' else sorted(set(list(range(0, full, 3)) + [full - 1, full - 2, 11, 12, 13]))
        for t in truncs:
            if 0 <= t < full: J.append(mk('trunc=%d' % t, wire.gen_c(m, trunc=t, concrete_strings=True), 'trunc'))
        for k in range(W):
            for spec in wire.hostile_splits(toks, k, ranged=False, dense=(tier != 'quick')):
                if spec[0] == 'const' and spec[1] == wire.word_values(toks)[k]: continue
                # quick tier: a hostile type code turns the (symbolic) payload of a fixed-size field into item counts/lengths, and a data length that is not a multiple of
                # the item size takes an error path through the field's destruction; both exceed 200 s (measured) and are thorough-only
                if tier == 'quick' and (labels[k].startswith('typeCode') or (labels[k].startswith('dataLen') and sname == 'i32x2' and spec[1] % 4 != 0)): continue
                J.append(mk('word%d[%s]=%s' % (k, labels[k], spec[1]), wire.gen_c(m, hostile=(k, spec), concrete_strings=True), 'hostile/' + labels[k].split('(')[0]))
    return J


MSG_MODE = 'func'


def run(tier, seed):
    jobs = um_jobs(tier) + mm_jobs(tier) + uf_jobs(tier) + msg_jobs(tier)
    meta = {
        'rule': 'one CBMC job per (parser entry point, exact buffer length N); inside a job every buffer byte, field name byte, index and type-code argument is a solver variable; '
                'a job is non-trivial iff its end-of-harness witness assertion is reachable (reported FAILED by CBMC)',
        'bounds': 'MicroMessage.c: N in the listed lengths (<= 40 quick, <= 64 thorough), field names of <= 2 bytes, one level of sub-message recursion',
        'outside': 'buffers longer than the bound; zlib inflate; stack exhaustion by deep nesting',
        'assumptions': ['malloc never fails (--no-malloc-may-fail)', 'printf/fprintf have no effect', 'CBMC 6.11 C front end semantics for the shipped C sources',
                        'forming/comparing out-of-bounds pointers without dereferencing (MicroMessage.c does this by design) is reported separately as unconfirmable UB'],
        'functions_encoded': ['MicroMessage.c: whole file (read accessors)'],
    }
    ufj = [j for j in jobs if j.family == 'unflattener' and j.pdefs['IR2C_P0'] == 17 and j.pdefs['IR2C_P1'] in (6, 8)]
    return vrun.run_property('C02', tier, seed, jobs, meta, diff_jobs=ufj[:2])


if __name__ == '__main__':
    import sys
    js = [j for j in (um_jobs('quick') + mm_jobs('quick')) if sys.argv[1] in j.name]
    print(len(js), 'jobs')
    sys.exit(vrun.run_property('C02', 'quick', 1, js, {'rule': 'debug subset'}))
