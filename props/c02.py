# C02 -- parsing untrusted bytes is memory-safe, terminates, and costs O(input)
import vrun
from vrun import Job

UM_SRC = ['lang/c/micromessage/MicroMessage.c']
UM_OPS = {0: 'header accessors', 1: 'UMFindBool', 2: 'UMFindInt8', 3: 'UMFindInt16', 4: 'UMFindInt32', 5: 'UMFindInt64', 6: 'UMFindFloat', 7: 'UMFindDouble',
          8: 'UMFindPoint', 9: 'UMFindRect', 10: 'UMGetString', 11: 'UMFindData', 12: 'UMFindMessage(+1 level)', 13: 'UMGetNumItemsInField', 14: 'UMGetFieldTypeCode',
          15: 'field-name iterator to exhaustion', 16: 'two accessors sharing the read-field cache'}


def um_jobs(tier):
    jobs = []
    ns = [12, 13, 24, 26, 33, 40] if tier == 'quick' else [0, 11, 12, 13, 16, 20, 24, 25, 26, 27, 30, 33, 38, 40, 44, 52, 64]
    for n in ns:
        for op in UM_OPS:
            nf = max(0, (n - 12) // 13)  # a field needs >= 12 header bytes + >= 1 data byte
            walk = n // 4 + 2     # every data-walking loop advances >= 4 bytes per iteration inside an n-byte buffer
            us = {'verif_symbolic_buffer.0': n + 1, 'GetFieldByNameAux.0': nf + 2, 'GetNumItemsInField.0': max(0, n - 24) // 16 + 3, 'UMFindMessage.0': walk,
                  'UMFindData.0': walk, 'UMGetString.0': walk, 'UMGetString.1': n + 1, 'UMIteratorAdvance.0': nf + 2, 'harness_um_parse.0': (nf + 2) if op == 15 else (n + 2)}
            jobs.append(Job('um_parse N=%d op=%d' % (n, op), 'A', 'harness/c/um_parse.c', 'harness_um_parse', srcs=UM_SRC, cdefs={'N': n, 'OP': op}, unwind=4, unwindset=us,
                            mode='mem', object_bits=12, unwind_is_property=True, family='um_parse/op%d' % op, desc=UM_OPS[op]))
    return jobs


def run(tier, seed):
    jobs = um_jobs(tier)
    meta = {
        'rule': 'one CBMC job per (parser entry point, exact buffer length N); inside a job every buffer byte, field name byte, index and type-code argument is a solver variable; '
                'a job is non-trivial iff its end-of-harness witness assertion is reachable (reported FAILED by CBMC)',
        'bounds': 'MicroMessage.c: N in the listed lengths (<= 40 quick, <= 64 thorough), field names of <= 2 bytes, one level of sub-message recursion',
        'outside': 'buffers longer than the bound; zlib inflate; stack exhaustion by deep nesting',
        'assumptions': ['malloc never fails (--no-malloc-may-fail)', 'printf/fprintf have no effect', 'CBMC 6.11 C front end semantics for the shipped C sources',
                        'forming/comparing out-of-bounds pointers without dereferencing (MicroMessage.c does this by design) is reported separately as unconfirmable UB'],
        'functions_encoded': ['MicroMessage.c: whole file (read accessors)'],
    }
    return vrun.run_property('C02', tier, seed, jobs, meta)
