# C03 -- a gateway delivers exactly the sent Message sequence for every byte segmentation (inductive step over I/O calls)
import vrun
from vrun import Job


def jobs(tier):
    J = []
    bodies = [1, 6] if tier == 'quick' else [1, 2, 3, 5, 8, 13, 24]
    for b in bodies:
        frame = 8 + b
        for ph, pn in ((0, 'recv-header'), (1, 'recv-body'), (2, 'send')):
            J.append(Job('mini-gateway %s body=%d' % (pn, b), 'A', 'harness/c/mg_step.c', 'harness_mg_step', srcs=['lang/c/minimessage/MiniMessageGateway.c'],
                         cdefs={'BODY': b, 'PHASE': ph}, unwind=2 * frame + 2, unwindset={'MGDoInput.0': 4, 'MGDoOutput.0': 4}, mode='mem', object_bits=12,
                         family='mg/' + pn, timeout=(280 if tier == 'quick' else 1500)))
    ubodies = [14, 27] if tier == 'quick' else [12, 13, 14, 20, 27, 30, 40]
    for b in ubodies:
        frame = 8 + b
        for ph, pn in ((0, 'recv-header'), (1, 'recv-body'), (2, 'send')):
            if ph == 2 and b < 27: continue          # the sender harness queues messages with one int8 field: 26 bytes + items
            J.append(Job('micro-gateway %s body=%d' % (pn, b), 'A', 'harness/c/ug_step.c', 'harness_ug_step', srcs=['lang/c/micromessage/MicroMessageGateway.c', 'lang/c/micromessage/MicroMessage.c'],
                         cdefs={'BODY': b, 'PHASE': ph}, unwind=2 * frame + 10, unwindset={'UGDoInput.0': 4, 'UGDoOutput.0': 4, 'GetFieldByNameAux.0': 3}, mode='mem', object_bits=12,
                         family='ug/' + pn, timeout=(280 if tier == 'quick' else 1500)))
    return J


META = {
    'rule': 'one CBMC job per (gateway, direction/phase, frame body length); inside a job the cursor position inside the frame, every body byte, maxBytes and the count returned by every '
            'transport call are solver variables; the job proves the inductive step Recv(p) -> Recv(p\') / Send(q) -> Send(q\') incl. exact delivery at the frame boundary. '
            'Non-trivial iff the witness is reachable.',
    'bounds': 'mini gateway: frames with body length <= 6 (quick) / <= 24 (thorough); micro gateway: body 14/27 (quick) / 12..40 (thorough), two frames back to back, one I/O call per job with any number of transport calls inside it',
    'outside': 'zlib encodings, templating gateway, WebSocket, plain-text/raw gateways\' delivery semantics, frames longer than the bound; the composition of steps into whole '
               'streams is the induction argument of DESIGN.md 5.3, not machine-checked',
    'assumptions': ['the Message codec behind the gateway is cut to a model that checks it is handed exactly the frame body', 'malloc never fails',
                    'byte buffers are modelled as constant-size blocks with an explicit logical size; every transport access is checked against the logical size'],
}


def run(tier, seed):
    return vrun.run_property('C03', tier, seed, jobs(tier), META)
