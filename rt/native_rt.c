/* native_rt.c -- native implementation of the symbolic-input layer.
 * Modes:  replay <file>   : inputs come from a replay vector (lines "<width> <value>"); exit 0 = passed,
 *                           3 = assertion violated, 4 = assume false / vector exhausted (infeasible natively)
 *         diff <n> <seed> : n pseudo-random executions; prints one line per run: outcome + observation hash  */
#include <stdint.h>
#include <stdio.h>
#include <stdlib.h>
#include <string.h>
#include <setjmp.h>
#include <signal.h>
#include <unistd.h>
void HARNESS(void);
#ifdef HAVE_CTORS
void ir2c_global_ctors(void);
#endif
static int mode_replay = 0;
static uint64_t rng = 88172645463325252ULL;
static uint64_t nxt(void){ rng ^= rng<<13; rng ^= rng>>7; rng ^= rng<<17; return rng; }
static struct { int w; uint64_t v; } vec[65536]; static int nvec = 0, pos = 0;
static jmp_buf jb; static uint64_t obs; static int reached; static const char * failmsg;
static uint64_t draw(int w)
{
   if (mode_replay) {
      if (pos >= nvec) { fprintf(stderr, "REPLAY: input vector exhausted at %d\n", pos); exit(4); }
      if (vec[pos].w != w) { fprintf(stderr, "REPLAY: width mismatch at %d (vector %d, harness %d)\n", pos, vec[pos].w, w); exit(4); }
      return vec[pos++].v;
   }
   uint64_t v = nxt() >> 11;
   uint64_t sel = nxt() >> 60;
   /* bias towards small and boundary values so that assumes are often satisfiable */
   if (sel < 6) v %= 8; else if (sel < 9) v %= 40; else if (sel < 10) v = ~(v % 8); else if (sel < 11) v = (v % 300); else v = nxt();
   return v;
}
uint8_t  nondet_u8(void)  { return (uint8_t)  draw(8); }
uint16_t nondet_u16(void) { return (uint16_t) draw(16); }
uint32_t nondet_u32(void) { return (uint32_t) draw(32); }
uint64_t nondet_u64(void) { return (uint64_t) draw(64); }
#ifndef HAVE_CTORS
void verif_strlen_hint(uint8_t * p, uint32_t len) { (void) p; (void) len; }
#endif
void verif_observe(uint64_t v) { obs = (obs ^ v) * 1099511628211ULL + 0x9e37; }
void verif_witness(void) { reached = 1; if (mode_replay) { printf("REPLAY: harness completed, no assertion violated\n"); fflush(stdout); _exit(0); } longjmp(jb, 3); }
void __CPROVER_assume(_Bool c) { if (!c) { if (mode_replay) { printf("REPLAY: assumption false (infeasible natively)\n"); fflush(stdout); _exit(4); } longjmp(jb, 1); } }
void __CPROVER_assert(_Bool c, const char * m)
{
   if (!c) {
      if (mode_replay) { printf("REPLAY: ASSERTION VIOLATED: %s\n", m); fflush(stdout); _exit(3); }
      failmsg = m; longjmp(jb, 2);
   }
}
static void on_alarm(int s) { (void)s; const char m[] = "REPLAY: WATCHDOG (no termination within limit)\n"; if (write(1, m, sizeof(m)-1)) {} _exit(5); }
int main(int argc, char ** argv)
{
   if (argc >= 3 && !strcmp(argv[1], "replay")) {
      mode_replay = 1;
      FILE * f = fopen(argv[2], "r"); if (!f) { perror("replay file"); return 2; }
      int w; unsigned long long v;
      while (nvec < 65536 && fscanf(f, "%d %llu", &w, &v) == 2) { vec[nvec].w = w; vec[nvec].v = v; nvec++; }
      fclose(f);
      signal(SIGALRM, on_alarm); alarm(argc >= 4 ? atoi(argv[3]) : 10);
#ifdef HAVE_CTORS
      ir2c_global_ctors();
#endif
      HARNESS();
      printf("REPLAY: harness returned without reaching its end marker\n");
      return 0;
   }
   int n = argc >= 3 ? atoi(argv[2]) : 1000;
   if (argc >= 4) rng ^= (uint64_t) strtoull(argv[3], 0, 10) * 0x9E3779B97F4A7C15ULL;
   if (!rng) rng = 1;
#ifdef HAVE_CTORS
   ir2c_global_ctors();
#endif
   int completed = 0, fails = 0, infeasible = 0;
   for (int i = 0; i < n; i++) {
      obs = 1469598103934665603ULL; reached = 0; failmsg = 0;
      int r = setjmp(jb);
      if (r == 0) { HARNESS(); r = 4; }
      if (r == 3) completed++; else if (r == 2) fails++; else if (r == 1) infeasible++;
      printf("%d %d %016llx %s\n", i, r, (unsigned long long) obs, failmsg ? failmsg : "-");
   }
   printf("SUMMARY runs=%d completed=%d assertfail=%d infeasible=%d\n", n, completed, fails, infeasible);
   return 0;
}
