/* vsym_c.h -- symbolic-input / assertion layer shared by every harness (C and ir2c-generated C).
 * Under CBMC (__CPROVER__): inputs are solver variables, recorded through verif_in_* so that a counterexample
 * trace can be turned into a replay vector.  Natively: the same calls read the replay vector / a PRNG (native_rt.c). */
#ifndef VSYM_C_H
#define VSYM_C_H
#include <stdint.h>
#include <stddef.h>
#ifdef __cplusplus
extern "C" {
#endif
uint8_t  nondet_u8(void);
uint16_t nondet_u16(void);
uint32_t nondet_u32(void);
uint64_t nondet_u64(void);
void verif_observe(uint64_t v);         /* differential-run observable; no-op under CBMC */
#ifndef __CPROVER__
#ifdef __cplusplus
void __CPROVER_assume(bool);
void __CPROVER_assert(bool, const char *);
#else
void __CPROVER_assume(_Bool);
void __CPROVER_assert(_Bool, const char *);
#endif
#endif
void verif_strlen_hint(uint8_t * p, uint32_t len);   /* Engine B: register the job-constant length of a symbolic C string (see ir2c/prelude_base.h) */
void verif_witness(void);               /* native: records that the end of the harness was reached */
#ifdef __cplusplus
}
#endif
#define ASSUME(c) __CPROVER_assume(c)
#define CHECK(c,msg) __CPROVER_assert((c), msg)
/* Every harness ends with VERIF_REACHED(): the witness assertion must come back FAILED (reachability, anti-vacuity),
 * and the assume(0) after it stops symbolic execution of destructors/epilogue. */
#ifdef __CPROVER__
#define VERIF_REACHED() do { __CPROVER_assert(0, "VERIF_WITNESS"); __CPROVER_assume(0); } while (0)
#else
#define VERIF_REACHED() verif_witness()
#endif
#endif
