/* CBMC-side bodies of the symbolic-input layer (included once per CBMC program). */
#ifndef VSYM_CBMC_H
#define VSYM_CBMC_H
#include <stdint.h>
uint8_t  __VERIFIER_nondet_u8(void);
uint16_t __VERIFIER_nondet_u16(void);
uint32_t __VERIFIER_nondet_u32(void);
uint64_t __VERIFIER_nondet_u64(void);
uint8_t  verif_in_u8;  uint16_t verif_in_u16; uint32_t verif_in_u32; uint64_t verif_in_u64;
uint8_t  nondet_u8(void)  { uint8_t  r = __VERIFIER_nondet_u8();  verif_in_u8  = r; return r; }
uint16_t nondet_u16(void) { uint16_t r = __VERIFIER_nondet_u16(); verif_in_u16 = r; return r; }
uint32_t nondet_u32(void) { uint32_t r = __VERIFIER_nondet_u32(); verif_in_u32 = r; return r; }
uint64_t nondet_u64(void) { uint64_t r = __VERIFIER_nondet_u64(); verif_in_u64 = r; return r; }
void verif_observe(uint64_t v) { (void)v; }
void verif_witness(void) { __CPROVER_assert(0, "VERIF_WITNESS"); __CPROVER_assume(0); }
#endif
