// native_stubs.cpp -- native definitions of the few logging/abort entry points of muscle that harnesses reach through headers, for native
// builds (replay, translator differential) that do not link syslog/SysLog.cpp and system/SetupSystem.cpp.  They mirror the CBMC models in
// models/base.def: logging has no effect, Crash() aborts.
#include <stdio.h>
#include <stdlib.h>
#include "syslog/SysLog.h"
#include "support/MuscleSupport.h"
namespace muscle {
#ifndef VERIF_HAVE_SYSLOG
namespace muscle_private { AtomicCounter _maxLogThreshold(MUSCLE_LOG_INFO); }
status_t LogTimeAux(int, const char *, ...) {return B_NO_ERROR;}
status_t LogStackTrace(int, uint32) {return B_NO_ERROR;}
void WarnOutOfMemory(const char *, int) {}
#endif
#ifdef VERIF_STUB_ATOULL_HASH
// referenced by String.cpp but not reachable from the String harnesses; defined in system/SetupSystem.cpp, which drags in the whole library.  Reaching one natively is an error.
uint64 Atoull(const char *) {printf("REPLAY: native stub Atoull() reached\n"); fflush(stdout); abort();}
uint32 CalculateHashCode(const void *, size_t, uint32) {printf("REPLAY: native stub CalculateHashCode() reached\n"); fflush(stdout); abort();}
#endif
#ifndef VERIF_HAVE_SETUPSYSTEM
void Crash(const char * file, int line) {printf("REPLAY: muscle::Crash() called from %s:%i\n", file, line); fflush(stdout); abort();}
#endif
}

#ifdef VERIF_ALLOC_BUDGET
// native replay of an allocation-budget counterexample: every operator new is checked against the same per-request budget the CBMC allocator model asserts
#include <new>
extern "C" unsigned wl_alloc_one(void);
extern "C" void __CPROVER_assert(bool, const char *);
static void * verif_checked_alloc(size_t n) {if (wl_alloc_one()) __CPROVER_assert(n <= wl_alloc_one(), "allocation request within the O(N) per-request budget"); return malloc(n ? n : 1);}
void * operator new(size_t n) {return verif_checked_alloc(n);}
void * operator new[](size_t n) {return verif_checked_alloc(n);}
void * operator new(size_t n, const std::nothrow_t &) noexcept {return verif_checked_alloc(n);}
void * operator new[](size_t n, const std::nothrow_t &) noexcept {return verif_checked_alloc(n);}
void operator delete(void * p) noexcept {free(p);}
void operator delete[](void * p) noexcept {free(p);}
void operator delete(void * p, size_t) noexcept {free(p);}
void operator delete[](void * p, size_t) noexcept {free(p);}
#endif
