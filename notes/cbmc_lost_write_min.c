#include <stdlib.h>
typedef unsigned char u8; typedef unsigned long u64;
struct A6 { u8 a[6]; };
struct E { unsigned h; struct A6 f1; u8 pad[2]; };
unsigned nondet_u(void);
int main() {
  struct E *arr = malloc(8*sizeof(struct E)); __CPROVER_assume(arr != 0);
  for (unsigned i=0;i<8;i++) { arr[i].h = 5; arr[i].f1.a[0] = (u8)(i-1u); arr[i].f1.a[1] = (u8)(i+1u); }
  u8 *v2 = &arr[0].f1.a[1]; u8 x = *v2; __CPROVER_assert(x == 1, "x is 1");
  u8 *v8 = (u8*)arr + (long)(u64)x * 12 + 4;
  __CPROVER_assert(*v8 == 0, "read before");
  *v8 = 0xff;
  __CPROVER_assert(*v8 == 0xff, "read back through pointer");
  __CPROVER_assert(arr[1].f1.a[0] == 0xff, "write lands");
  __CPROVER_assert(arr[x].f1.a[0] == 0xff, "write lands (symbolic read)");
  return 0;
}
