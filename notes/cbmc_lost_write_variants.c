#include <stdlib.h>
typedef unsigned char u8; typedef unsigned long u64;
struct A6 { u8 a[6]; };
struct B { unsigned h; };
struct E { struct B f0; struct A6 f1; u8 pad[2]; };
int main() {
  struct E *arr = malloc(8*sizeof(struct E)); __CPROVER_assume(arr != 0);
  for (unsigned i=0;i<8;i++) { arr[i].f0.h = 5; arr[i].f1.a[0] = (u8)(i-1u); arr[i].f1.a[1] = (u8)(i+1u); }
  struct E *v1 = arr + 1;
  u8 v4 = v1[0].f1.a[1];   /* = 2 */
  __CPROVER_assert(v4 == 2, "v4");
#ifdef V7
  v1[(long)(u64)v4].f1.a[0] = 0xff;
#elif defined(V8)
  struct B *v0 = &v1[0].f0;
  ((struct E*)v0)[(long)(u64)v4].f1.a[0] = 0xff;
#elif defined(V9)
  u8 *raw = (u8*)arr + 4;   /* cookie-style: byte pointer 8 before element 1 */
  struct B *v0 = (struct B*)(raw + 8);
  ((struct E*)v0)[(long)(u64)v4].f1.a[0] = 0xff;
#elif defined(V10)
  u8 *raw = &((u8*)arr)[4];
  struct B *v0 = (struct B*)(u8*)(((struct E*)((u8*)raw - 4)) + 1);
  ((struct E*)v0)[(long)(u64)v4].f1.a[0] = 0xff;
#elif defined(V11)
  u8 *raw = &((u8*)arr)[4];
  struct T { struct B *table; } t; t.table = (struct B*)(u8*)(((struct E*)((u8*)raw - 4)) + 1);
  struct B *v0 = t.table;
  ((struct E*)v0)[(long)(u64)v4].f1.a[0] = 0xff;
#elif defined(V12)
  struct B *v0 = (struct B*)v1;
  ((struct E*)v0)[(long)(u64)v4].f1.a[0] = 0xff;
#elif defined(V13)
  struct B *v0 = (struct B*)v1;
  struct E *v9 = (struct E*)v0; v9[(long)(u64)v4].f1.a[0] = 0xff;
#elif defined(V14)
  void *v0 = v1;
  ((struct E*)v0)[(long)(u64)v4].f1.a[0] = 0xff;
#elif defined(V15)
  struct B *v0 = (struct B*)v1;
  (*(struct E*)((u8*)v0 + (long)(u64)v4 * 12)).f1.a[0] = 0xff;
#elif defined(V16)
  struct B *v0 = (struct B*)(void*)v1;
  ((struct E*)v0)[(long)(u64)v4].f1.a[0] = 0xff;
#elif defined(V17)
  struct B *v0 = (struct B*)v1;
  struct E *base = (struct E*)((u8*)v0 - __CPROVER_POINTER_OFFSET(v0)); base[(long)(__CPROVER_POINTER_OFFSET(v0)/sizeof(struct E)) + (long)(u64)v4].f1.a[0] = 0xff;
#elif defined(V18)
  struct B *v0 = (struct B*)v1;
  ((struct E*)(void*)v0)[(long)(u64)v4].f1.a[0] = 0xff;
#endif
  __CPROVER_assert(arr[3].f1.a[0] == 0xff, "write lands");
  return 0;
}
