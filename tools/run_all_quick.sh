#!/bin/sh
# dev aid: run every registered quick check in turn, log to /root/scratch/quick_<id>.log
mkdir -p /root/scratch
for p in ${*:-C16 C10 C17 C20 C03 C08 C02 C01}; do
  /usr/bin/time -f "$p wall=%es" /verif/check $p quick > /root/scratch/quick_$p.log 2>&1
  echo "$p exit=$? $(tail -1 /root/scratch/quick_$p.log)"
done
