#!/bin/bash
# tools/try_seeded.sh <seeded-dir> <property> [job-name-regex]   -- apply a seeded change to /repo, run the property's quick check (optionally a subset), undo it.
d=$(realpath $1); prop=$2; flt=$3
git -C /repo diff --quiet || { echo "/repo has local modifications"; exit 2; }
git -C /repo apply "$d/patch.diff" || { echo "patch does not apply"; exit 2; }
if [ -n "$flt" ]; then export VERIF_FILTER="$flt"; fi
cd /verif && cp evidence/$prop.json /tmp/.ev_$prop.json 2>/dev/null
./check $prop quick > /tmp/try_$(basename $d).log 2>&1; rc=$?
cp /tmp/.ev_$prop.json evidence/$prop.json 2>/dev/null
git -C /repo checkout -- .
echo "$(basename $d): exit=$rc  $(grep -c '^VIOLATION' /tmp/try_$(basename $d).log) VIOLATION lines; $(tail -1 /tmp/try_$(basename $d).log)"
