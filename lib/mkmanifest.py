#!/usr/bin/env python3
# regenerates MANIFEST.json from the table below (kept as code so that it stays valid and consistent)
import json, os
V = os.path.dirname(os.path.dirname(os.path.abspath(__file__)))
TECH = 'bounded symbolic execution of the real code (CBMC 6.11 + SAT) over symbolic inputs; counterexamples replayed natively'
CHECKS = {
 'C02': dict(design='5.2', engine='A+B',
   text='Bounded model checking of the real parsers: for each parser entry point and each exact buffer length N in the stated set, CBMC proves that no input of that length makes the code read/write outside the buffer, fail an unwinding bound linear in N, or reach an abort. Solver-decided for all 2^(8N) inputs per job; nothing is sampled.',
   note='Bounded: lengths in the job table only. Trusted: CBMC 6.11 C semantics, clang-14 -O1 lowering + ir2c translation (validated per run by a native differential), allocator never fails, printf/logging are no-ops. Out-of-bounds pointer formation without dereference is not decided.'),
}
NA = {}
def main():
    m = {'version': 1,
         'setup_cmd': 'make -C /verif/ir2c',
         'hooks': {'guard': 'MUSCLE_VERIF_HOOKS', 'enable': 'none needed: harnesses reach private state with -fno-access-control and replace the environment at IR level; no hook commits exist',
                   'baseline_off_cmd': 'cmake -G Ninja -S /repo -B /repo/_build >/dev/null && cmake --build /repo/_build >/dev/null && ctest --test-dir /repo/_build -j8 --timeout 900',
                   'source_commits': [], 'add_only': True},
         'engines': [
             {'name': 'A', 'path': 'lib/vrun.py', 'serves_properties': [], 'kind_free_text': 'CBMC 6.11 directly on the shipped C sources (MicroMessage.c, MiniMessage.c, the two C gateways) with C harnesses'},
             {'name': 'B', 'path': 'ir2c/ir2c.cpp', 'serves_properties': [], 'kind_free_text': 'clang++-14 -O1 -emit-llvm on the shipped C++ sources -> ir2c (LLVM IR to C translator in this directory) -> CBMC 6.11; translation validated per run by native differential execution'}],
         'checks': [], 'not_applicable': [], 'notes': 'See DESIGN.md. Every check: ./check <id> [quick|thorough]; replay: ./check replay <file>.'}
    for pid in sorted(CHECKS):
        c = CHECKS[pid]
        for e in m['engines']:
            if e['name'] in c['engine']: e['serves_properties'].append(pid)
        m['checks'].append({'property_id': pid, 'quick_cmd': './check %s quick' % pid, 'thorough_cmd': './check %s thorough' % pid, 'evidence_file': 'evidence/%s.json' % pid,
                            'replay_cmd_template': './check replay {path}', 'engine': c['engine'],
                            'level_claimed': {'category': 'model_checking', 'text': c['text'], 'design_ref': 'DESIGN.md section ' + c['design']},
                            'level_note': c['note'], 'technique': c.get('technique', TECH)})
    for pid in sorted(NA): m['not_applicable'].append({'property_id': pid, 'reason': NA[pid]})
    json.dump(m, open(os.path.join(V, 'MANIFEST.json'), 'w'), indent=1)
if __name__ == '__main__': main()
