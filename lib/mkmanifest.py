#!/usr/bin/env python3
# regenerates MANIFEST.json from the table below (kept as code so that it stays valid and consistent)
import json, os
V = os.path.dirname(os.path.dirname(os.path.abspath(__file__)))
TECH = 'bounded symbolic execution of the real code (CBMC 6.11 + SAT) over symbolic inputs; counterexamples replayed natively'
CHECKS = {
 'C02': dict(design='5.2', engine='A+B',
   text='Bounded model checking of the real parsers: for each parser entry point and each exact buffer length N in the stated set, CBMC proves that no input of that length makes the code read/write outside the buffer, fail an unwinding bound linear in N, or reach an abort. Solver-decided for all 2^(8N) inputs per job; nothing is sampled.',
   note='Bounded: lengths in the job table only. Trusted: CBMC 6.11 C semantics, clang-14 -O1 lowering + ir2c translation (validated per run by a native differential), allocator never fails, printf/logging are no-ops. Out-of-bounds pointer formation without dereference is not decided.'),
}
NA_DESIGN = 'not encodable for solver-based checking of the real code (DESIGN.md section 6): '
NA = {
 'C04': NA_DESIGN + 'convergence of a subscriber mirror is a statement about whole histories of the server\'s string-keyed DataNode graph (StorageReflectSession + DataNode + PathMatcher + libc regex + event loop); symbolic histories of that heap graph do not survive symbolic execution, concrete ones leave the solver nothing to decide',
 'C05': NA_DESIGN + 'the traversal is driven by pattern strings over string-keyed child tables and libc regex; the part that is muscle\'s own pattern logic is decided under C15',
 'C06': NA_DESIGN + 'a universally quantified negative over ~20 command handlers on the server object graph plus connection loss at every byte of a TCP stream through ReflectServer\'s socket loop',
 'C07': NA_DESIGN + 'server-level liveness over the same object graph and event loop',
 'C11': NA_DESIGN + 'real OS threads, socket pairs / condition variables and a message queue under a mutex: CBMC\'s thread support aborts on this code and blocking/wake-up would have to be modelled rather than executed',
 'C13': NA_DESIGN + 'ordered-index operations locate positions by node names in string-keyed Hashtables and notify through StorageReflectSession; symbolic names make the tables symbolic, concrete ones leave nothing to decide',
 'C18': NA_DESIGN + 'the lock state is three Hashtables keyed by thread id plus wait conditions; every schedule step changes their shape and liveness needs blocking semantics',
 'C19': NA_DESIGN + 'pending/deferred Hashtables of message queues per client, real Thread objects and condition variables',
}
PENDING = {  # claimed by DESIGN.md but whose check is not built yet at this commit: listed as not claimed until it exists
 'C01': '5.1', 'C03': '5.3', 'C08': '5.5', 'C09': '5.9', 'C10': '5.6', 'C12': '5.7', 'C14': '5.8', 'C15': '5.10', 'C16': '5.11', 'C17': '5.12', 'C20': '5.13',
}
def main():
    m = {'version': 1,
         'setup_cmd': 'make -C /verif/ir2c',
         'hooks': {'guard': 'MUSCLE_VERIF_HOOKS', 'enable': 'none needed: harnesses reach private state with -fno-access-control and replace the environment at IR level; no hook commits exist',
                   'baseline_off_cmd': 'cmake -G Ninja -S /repo -B /repo/_build >/dev/null && cmake --build /repo/_build >/dev/null && ctest --test-dir /repo/_build -j8 --timeout 900',
                   'source_commits': [], 'add_only': True},
         'engines': [
             {'name': 'A', 'path': 'lib/vrun.py', 'serves_properties': [], 'kind_free_text': 'CBMC 6.11 directly on the shipped C sources (MicroMessage.c, MiniMessage.c, the two C gateways) with C harnesses'},
             {'name': 'B', 'path': 'ir2c/ir2c.cpp', 'serves_properties': [], 'kind_free_text': 'clang++-14 -O1 -emit-llvm on the shipped C++ sources -> ir2c (LLVM IR to C translator in this directory) -> CBMC 6.11; translation validated per run by native differential execution'}],
         'checks': [], 'not_applicable': [], 'notes': 'See DESIGN.md. Every check: ./check <id> [quick|thorough]; replay: ./check replay <file>.'}
    for pid in sorted(CHECKS):
        c = CHECKS[pid]
        for e in m['engines']:
            if e['name'] in c['engine']: e['serves_properties'].append(pid)
        m['checks'].append({'property_id': pid, 'quick_cmd': './check %s quick' % pid, 'thorough_cmd': './check %s thorough' % pid, 'evidence_file': 'evidence/%s.json' % pid,
                            'replay_cmd_template': './check replay {path}', 'engine': c['engine'],
                            'level_claimed': {'category': 'model_checking', 'text': c['text'], 'design_ref': 'DESIGN.md section ' + c['design']},
                            'level_note': c['note'], 'technique': c.get('technique', TECH)})
    for pid in sorted(NA):
        if pid not in CHECKS: m['not_applicable'].append({'property_id': pid, 'reason': NA[pid]})
    for pid in sorted(PENDING):
        if pid not in CHECKS: m['not_applicable'].append({'property_id': pid, 'reason': 'not claimed at this commit: the check designed in DESIGN.md section %s is not built yet' % PENDING[pid]})
    m['not_applicable'].sort(key=lambda x: x['property_id'])
    json.dump(m, open(os.path.join(V, 'MANIFEST.json'), 'w'), indent=1)
if __name__ == '__main__': main()
