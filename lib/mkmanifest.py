#!/usr/bin/env python3
# regenerates MANIFEST.json from the table below (kept as code so that it stays valid and consistent)
import json, os
V = os.path.dirname(os.path.dirname(os.path.abspath(__file__)))
TECH = 'bounded symbolic execution of the real code (CBMC 6.11 + SAT) over symbolic inputs; counterexamples replayed natively'
CHECKS = {
 'C01': dict(design='5.1', engine='B',
   text='The real Message.cpp/String.cpp/ByteBuffer.cpp closure (clang IR -> ir2c -> CBMC), per message shape with every item value symbolic (all bit patterns of every numeric type, every raw byte, the what code): (1) building the Message through the public Add* API and flattening yields FlattenedSize() == reference size and exactly the bytes of the independent reference encoder; (2) the reference bytes are accepted and every value is read back bit-identically through Find*; (3) parsing the reference bytes and re-flattening reproduces them byte for byte with FlattenedSize() == length (bool bytes canonicalised). Round trip decode(encode(m)) == m follows through the reference bytes.',
   note='Shapes of lib/wire.py (all common types, 1-4 items, 1-3 fields, one nesting level; thorough two). String CONTENT bytes are job constants. The combined API round trip incl. Message::operator== is thorough-only (does not finish in 300 s). Built with muscle\'s own -DDISABLE_OBJECT_POOLING and -DMUSCLE_AVOID_TAGGED_POINTERS and with -fno-inline; field-name hashing modelled by a deterministic hash. Translation validated per run by native differential execution of the whole closure.'),
 'C02': dict(design='5.2', engine='A+B',
   text='Bounded model checking of the real C parsers. MicroMessage.c: for every public read accessor and every exact buffer length N in the job table CBMC proves that NO N-byte input makes the code read/write outside the buffer, abort, or exceed a loop bound linear in N (solver-decided over all 2^(8N) inputs). MiniMessage.c (a heap-building parser that cannot be executed with symbolic sizes): for each message shape, every truncation length, trailing garbage, and every framing word set to each small value and to the boundary constants of the property, with all payload bytes symbolic: memory safety, termination, O(N) allocation budget, object reusable and destructible afterwards. C++ kernel (Engine B): every read primitive of DataUnflattener (incl. arbitrary seeks, counts and nested read limits) in sequences of three on an exactly-sized symbolic buffer keeps the cursor and every access inside the buffer.',
   note='Bounded: lengths/shapes of the job table only. Of the C++ parsers only the DataUnflattener kernel is covered: Message.cpp\'s field/array parsers and the C++ gateways\' input paths are NOT (a seeded change there was missed, DESIGN 10.6). Trusted: CBMC 6.11 C semantics, allocator never fails, printf is a no-op. Forming/comparing out-of-bounds pointers without dereferencing is not decided.'),
 'C03': dict(design='5.3', engine='A',
   text='Inductive step over I/O calls, decided by CBMC on the real MiniMessageGateway.c and MicroMessageGateway.c (+ MicroMessage.c): from ANY receiver state Recv(p) / sender state Send(q) (cursor anywhere in the frame), one DoInput/DoOutput call with any maxBytes and any short-read/short-write counts re-establishes the invariant, delivers exactly the frame body exactly when its last byte arrives, and reports exactly the bytes moved. Base case (fresh gateway = Recv(0)/Send(0)) included; the composition into whole streams is the written induction argument of DESIGN 5.3.',
   note='Only the two C gateways at this commit (C++ MessageIOGateway not built). Frames with body <= 6 (mini) / 14, 27 (micro) bytes in quick, up to 24 / 40 in thorough. Mini: the Message codec behind the gateway is cut to a model that checks it is handed exactly the body bytes; micro: the real MicroMessage.c is linked. zlib/templating/WebSocket/text gateways are outside.'),
 'C08': dict(design='5.5', engine='A+B',
   text='For each message shape with SYMBOLIC item values, CBMC proves that the C++ Message class (Add*+Flatten), MicroMessage.c (UMAdd*) and MiniMessage.c (MMPut*+MMFlattenMessage) produce exactly the bytes of an independent reference encoder written from the documented layout (lib/wire.py), and that all three parsers read exactly the values back from the reference bytes (MiniMessage additionally re-flattens to identical bytes). Agreement between implementations follows by transitivity through the reference.',
   note='Python is not executable symbolically here; the 8-byte stream frame is compared for the C gateways only (C03). C++ jobs: string content bytes are job constants, pools disabled (see C01). MiniMessage multi-field/nested shapes only in the thorough tier (measured > 120 s). Shapes: lib/wire.py std_shapes.'),
 'C10': dict(design='5.6', engine='B',
   text='Sequential histories on the real Ref/ConstRef/RefCountable code (clang IR -> ir2c -> CBMC): for every sequence of 3 (quick) / 4 (thorough) operation kinds on three Refs and two objects, with the operands of every operation symbolic, after every step: destructor ran exactly once iff the last Ref is gone and never before, reference count = number of designating Refs.',
   note='The schedule quantifier of C10 (interleavings of atomic operations) and ObjectPool are NOT covered: only single-threaded histories. Built with -DMUSCLE_AVOID_TAGGED_POINTERS (CBMC cannot satisfy the alignment assertion of tagged pointers); translation validated per run by native differential execution.'),
 'C16': dict(design='5.11', engine='B',
   text='Inductive step on the real Queue.h (clang IR -> ir2c -> CBMC): from an ARBITRARY ring state satisfying the representation invariant (capacity and count per job; head offset, every slot incl. stale ones, and arguments symbolic) each public operation returns what an ideal sequence would, leaves the ideal content, and re-establishes the invariant; hence sequences of any length within the capacity bound. int32 items everywhere, an owning item type on the slot-vacating operations.',
   note='Capacities 3..6 (quick) / 3..9 (thorough). Arguments that size an allocation (EnsureSize request, start/count of multi-adds, insert index when full) are enumerated constants incl. 2^31 and 2^32-1, all others symbolic. Sorting/searching operations only up to 3 (quick) / 5 items. Translation validated per run by native differential execution.'),
 'C17': dict(design='5.12', engine='B',
   text='Real String.cpp/String.h (clang IR -> ir2c -> CBMC): for each operation and each receiver/operand length around the inline capacity (15), in both representations (inline and heap, also heap-backed short strings), with every content byte symbolic: result bytes, length, NUL termination and Length() < GetNumAllocatedBytes() equal a plain char-array model, including self-aliasing operands (s += s, SetCstr(pointer into s), s = s) and Flatten/Unflatten incl. rejection of unterminated input.',
   note='Lengths are job constants (0,1,14,15,16 quick; up to 20 thorough), operands 0-3 bytes. Outside: content-dependent result lengths (Replace/Trimmed/...), Arg/numeric formatting, LastIndexOf(char), s += (pointer into s) with growth, HashCode. String::IsCharInLocalArray is cut to an equivalent model without cross-object pointer ordering; translation validated per run by native differential execution.'),
 'C20': dict(design='5.13', engine='B',
   text='The whole of PulseNode.cpp executed symbolically on small trees: with every requested time and every instant symbolic, CBMC proves the reported wake-up time is the minimum over attached nodes, each node fires exactly once iff due and never early with its own scheduled time, stale nodes are re-asked exactly once (fired / invalidated / re-attached), detached nodes are never asked, plus the structural invariant of the three child lists.',
   note='At the edge of reach (6.8 M SAT variables for root+2 leaves, recalc+pulse): quick = all scenarios on root+1 leaf and recalc+pulse on root+2 leaves; thorough adds 3-4 node trees with 24 GB / 50 min per job. Times range over {0..7, never}. Translation validated per run by native differential execution.'),
}
NA_DESIGN = 'not encodable for solver-based checking of the real code (DESIGN.md section 6): '
NA = {
 'C04': NA_DESIGN + 'convergence of a subscriber mirror is a statement about whole histories of the server\'s string-keyed DataNode graph (StorageReflectSession + DataNode + PathMatcher + libc regex + event loop); symbolic histories of that heap graph do not survive symbolic execution, concrete ones leave the solver nothing to decide',
 'C05': NA_DESIGN + 'the traversal is driven by pattern strings over string-keyed child tables and libc regex; the part that is muscle\'s own pattern logic is decided under C15',
 'C06': NA_DESIGN + 'a universally quantified negative over ~20 command handlers on the server object graph plus connection loss at every byte of a TCP stream through ReflectServer\'s socket loop',
 'C07': NA_DESIGN + 'server-level liveness over the same object graph and event loop',
 'C11': NA_DESIGN + 'real OS threads, socket pairs / condition variables and a message queue under a mutex: CBMC\'s thread support aborts on this code and blocking/wake-up would have to be modelled rather than executed',
 'C13': NA_DESIGN + 'ordered-index operations locate positions by node names in string-keyed Hashtables and notify through StorageReflectSession; symbolic names make the tables symbolic, concrete ones leave nothing to decide',
 'C18': NA_DESIGN + 'the lock state is three Hashtables keyed by thread id plus wait conditions; every schedule step changes their shape and liveness needs blocking semantics',
 'C19': NA_DESIGN + 'pending/deferred Hashtables of message queues per client, real Thread objects and condition variables',
}
PENDING = {  # claimed by DESIGN.md but whose check is not built yet at this commit: listed as not claimed until it exists
 'C09': '5.9', 'C12': '5.7', 'C14': '5.8', 'C15': '5.10',
}
def main():
    m = {'version': 1,
         'setup_cmd': 'make -C /verif/ir2c',
         'hooks': {'guard': 'MUSCLE_VERIF_HOOKS', 'enable': 'none needed: harnesses reach private state with -fno-access-control and replace the environment at IR level; no hook commits exist',
                   'baseline_off_cmd': 'cmake -G Ninja -S /repo -B /repo/_build >/dev/null && cmake --build /repo/_build >/dev/null && ctest --test-dir /repo/_build -j8 --timeout 900',
                   'source_commits': [], 'add_only': True},
         'engines': [
             {'name': 'A', 'path': 'lib/vrun.py', 'serves_properties': [], 'kind_free_text': 'CBMC 6.11 directly on the shipped C sources (MicroMessage.c, MiniMessage.c, the two C gateways) with C harnesses'},
             {'name': 'B', 'path': 'ir2c/ir2c.cpp', 'serves_properties': [], 'kind_free_text': 'clang++-14 -O1 -emit-llvm on the shipped C++ sources -> ir2c (LLVM IR to C translator in this directory) -> CBMC 6.11; translation validated per run by native differential execution'}],
         'checks': [], 'not_applicable': [], 'notes': 'See DESIGN.md. Every check: ./check <id> [quick|thorough]; replay: ./check replay <file>.'}
    for pid in sorted(CHECKS):
        c = CHECKS[pid]
        for e in m['engines']:
            if e['name'] in c['engine']: e['serves_properties'].append(pid)
        m['checks'].append({'property_id': pid, 'quick_cmd': './check %s quick' % pid, 'thorough_cmd': './check %s thorough' % pid, 'evidence_file': 'evidence/%s.json' % pid,
                            'replay_cmd_template': './check replay {path}', 'engine': c['engine'],
                            'level_claimed': {'category': 'model_checking', 'text': c['text'], 'design_ref': 'DESIGN.md section ' + c['design']},
                            'level_note': c['note'], 'technique': c.get('technique', TECH)})
    for pid in sorted(NA):
        if pid not in CHECKS: m['not_applicable'].append({'property_id': pid, 'reason': NA[pid]})
    for pid in sorted(PENDING):
        if pid not in CHECKS: m['not_applicable'].append({'property_id': pid, 'reason': 'not claimed at this commit: the check designed in DESIGN.md section %s is not built yet' % PENDING[pid]})
    m['not_applicable'].sort(key=lambda x: x['property_id'])
    json.dump(m, open(os.path.join(V, 'MANIFEST.json'), 'w'), indent=1)
if __name__ == '__main__': main()
