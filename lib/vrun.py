# vrun.py -- job runner shared by every property check.
#
# A *job* is one solver query family: one harness entry point with one set of shape parameters, symbolically
# executed by CBMC over the real code (Engine A: the shipped C sources; Engine B: clang -> LLVM IR -> ir2c -> C).
# The runner builds everything from /repo's current working tree into a scratch directory under /verif/.work,
# runs the jobs on all cores, classifies CBMC's per-property results, replays every counterexample natively,
# consults known_findings.txt and writes the evidence file.
import os, sys, json, re, time, shutil, subprocess, hashlib, threading, random, resource, signal
from concurrent.futures import ThreadPoolExecutor, as_completed

VERIF = os.path.dirname(os.path.dirname(os.path.abspath(__file__)))
REPO = os.environ.get('VERIF_REPO', '/repo')
NCPU = int(os.environ.get('VERIF_JOBS', str(os.cpu_count() or 4)))
IR2C = os.path.join(VERIF, 'ir2c', 'ir2c')
RT = os.path.join(VERIF, 'rt')

CLANG_FLAGS = ['-std=gnu++11', '-DMUSCLE_ENABLE_ZLIB_ENCODING', '-DMUSCLE_NO_EXCEPTIONS', '-DNDEBUG', '-I' + REPO, '-I' + RT,
               '-O1', '-fno-vectorize', '-fno-slp-vectorize', '-fno-unroll-loops', '-fno-exceptions', '-fno-builtin',
               '-fno-access-control', '-Wno-everything', '-S', '-emit-llvm']
GXX_FLAGS = ['-std=gnu++11', '-DMUSCLE_ENABLE_ZLIB_ENCODING', '-DMUSCLE_NO_EXCEPTIONS', '-DNDEBUG', '-I' + REPO, '-I' + RT,
             '-O1', '-fno-access-control', '-fpermissive', '-w']


class Job:
    """One solver job.  engine 'A': harness is C, srcs are C files of /repo.  engine 'B': harness is C++, srcs are
    .cpp files of /repo linked at IR level."""
    def __init__(self, name, engine, harness, entry, srcs=(), cdefs=None, unwind=None, unwindset=None, mode='func',
                 timeout=None, stubs=(), models=('models/base.def',), preludes=('prelude_base.h',), extra_cbmc=(),
                 unwind_is_property=False, object_bits=None, desc=None, ir2c_flags=(), pdefs=None, extra_clang=(),
                 native_srcs=None, family=None, maxalloc=None, native_defs=None, solver=None, slice_formula=False, force_include=(), gen_c=None, fs_array=256, loop_rules=None, mem_gb=None):
        self.name = name; self.engine = engine; self.harness = harness; self.entry = entry
        self.srcs = list(srcs); self.cdefs = dict(cdefs or {}); self.pdefs = dict(pdefs or {})
        self.unwind = unwind; self.unwindset = dict(unwindset or {}); self.mode = mode; self.timeout = timeout
        self.stubs = list(stubs); self.models = list(models); self.preludes = list(preludes)
        self.extra_cbmc = list(extra_cbmc); self.unwind_is_property = unwind_is_property
        self.object_bits = object_bits; self.desc = desc or name; self.ir2c_flags = list(ir2c_flags)
        self.extra_clang = list(extra_clang); self.native_srcs = native_srcs; self.family = family or entry
        self.maxalloc = maxalloc; self.native_defs = dict(native_defs or {}); self.solver = solver
        self.slice_formula = slice_formula; self.force_include = list(force_include); self.gen_c = gen_c; self.fs_array = fs_array
        self.mem_gb = mem_gb          # address-space cap of the solver process; also its weight in the runner's memory budget
        self.loop_rules = dict(loop_rules or {})   # function name (or file basename followed by ':') -> bound for every loop in it
        self.result = None

    def build_key(self):
        h = hashlib.sha1(json.dumps([self.engine, self.harness, self.srcs, sorted(self.cdefs.items()), self.stubs,
                                     self.models, self.preludes, self.ir2c_flags, self.extra_clang, self.force_include, self.entry if self.engine == 'B' else '']).encode()).hexdigest()[:12]
        return h

    def descriptor(self):
        d = {'job': self.name, 'engine': self.engine, 'harness': self.harness, 'entry': self.entry}
        if self.cdefs: d['shape'] = self.cdefs
        if self.pdefs: d['params'] = self.pdefs
        if self.unwind is not None: d['unwind'] = self.unwind
        if self.unwindset: d['unwindset'] = self.unwindset
        d['mode'] = self.mode
        return d


def sh(cmd, cwd=None, timeout=None, env=None, mem_gb=None):
    def pre():
        os.setsid()
        if mem_gb:
            lim = int(mem_gb * (1 << 30))
            resource.setrlimit(resource.RLIMIT_AS, (lim, lim))
    t0 = time.time()
    p = subprocess.Popen(cmd, cwd=cwd, stdout=subprocess.PIPE, stderr=subprocess.PIPE, preexec_fn=pre, env=env)
    try:
        out, err = p.communicate(timeout=timeout)
        to = False
    except subprocess.TimeoutExpired:
        try: os.killpg(p.pid, signal.SIGKILL)
        except Exception: pass
        out, err = p.communicate()
        to = True
    ru = time.time() - t0
    return p.returncode, out.decode('utf-8', 'replace'), err.decode('utf-8', 'replace'), to, ru


def defs_to_flags(d):
    return ['-D%s=%s' % (k, v) if v is not None and v != '' else '-D%s' % k for k, v in sorted(d.items())]


class BuildError(Exception):
    pass


class WeightedSemaphore:
    def __init__(self, cap): self.cap = cap; self.used = 0; self.cv = threading.Condition()
    def acquire(self, w):
        with self.cv:
            while self.used + w > self.cap and self.used > 0: self.cv.wait()
            self.used += w
    def release(self, w):
        with self.cv: self.used -= w; self.cv.notify_all()


try:
    MEM_BUDGET_GB = max(8, int(open('/proc/meminfo').read().split('MemTotal:')[1].split()[0]) // (1 << 20) - 10)
except Exception:
    MEM_BUDGET_GB = 48
MEMSEM = WeightedSemaphore(MEM_BUDGET_GB)


class Runner:
    def __init__(self, prop, tier, seed):
        self.prop = prop; self.tier = tier; self.seed = seed
        self.work = os.path.join(VERIF, '.work', '%s_%s_%d' % (prop, tier, os.getpid()))
        shutil.rmtree(self.work, ignore_errors=True)
        os.makedirs(self.work)
        self.builds = {}
        self.build_lock = threading.Lock()
        self.build_locks = {}
        self.t0 = time.time()
        self.diff_results = []
        self.functions_encoded = set()
        self.log_lines = []
        self.loglock = threading.Lock()

    def log(self, s):
        with self.loglock:
            sys.stderr.write(s + '\n'); sys.stderr.flush()

    def cleanup(self):
        if not os.environ.get('VERIF_KEEP'):
            shutil.rmtree(self.work, ignore_errors=True)
            try: os.rmdir(os.path.join(VERIF, '.work'))
            except OSError: pass

    # ------------------------------------------------------------------ builds
    def get_build(self, job):
        key = job.build_key()
        with self.build_lock:
            if key not in self.build_locks: self.build_locks[key] = threading.Lock()
            lk = self.build_locks[key]
        with lk:
            if key in self.builds:
                b = self.builds[key]
                if isinstance(b, Exception): raise b
                return b
            try:
                b = self.build_A(job, key) if job.engine == 'A' else self.build_B(job, key)
            except BuildError as e:
                self.builds[key] = e
                raise
            self.builds[key] = b
            return b

    def build_A(self, job, key):
        # Engine A: the harness and the shipped C sources are compiled by goto-cc with the shipped include path (-I/repo)
        d = os.path.join(self.work, 'A_' + key); os.makedirs(d, exist_ok=True)
        srcs = [os.path.join(VERIF, job.harness)] + [os.path.join(REPO, s) for s in job.srcs]
        gb = os.path.join(d, 'main.gb')
        cmd = ['goto-cc', '-D__CPROVER__', '-I' + REPO, '-I' + RT, '-I' + os.path.join(VERIF, 'harness', 'c')] + defs_to_flags(job.cdefs) + list(job.extra_clang)
        for inc in job.force_include: cmd += ['-include', os.path.join(VERIF, inc)]
        cmd += srcs + ['-o', gb]
        rc, out, err, to, _ = sh(cmd, timeout=300)
        if rc != 0 or not os.path.exists(gb): raise BuildError('goto-cc failed:\n' + (err + out)[-3000:])
        return {'dir': d, 'cbmc_inputs': [gb], 'cflags': ['-I' + RT], 'report': None, 'c': None}

    def build_B(self, job, key):
        d = os.path.join(self.work, 'B_' + key); os.makedirs(d, exist_ok=True)
        lls = []
        inputs = [os.path.join(VERIF, job.harness)] + [os.path.join(REPO, s) for s in job.srcs]
        for i, src in enumerate(inputs):
            ll = os.path.join(d, 'tu%d.ll' % i)
            cmd = ['clang++-14'] + CLANG_FLAGS + ['-I' + os.path.join(VERIF, 'harness', 'cpp')] + defs_to_flags(job.cdefs) + job.extra_clang + [src, '-o', ll]
            rc, out, err, to, _ = sh(cmd, timeout=300)
            if rc != 0: raise BuildError('clang failed on %s:\n%s' % (src, err[-3000:]))
            lls.append(ll)
        allll = os.path.join(d, 'all.ll')
        if len(lls) > 1:
            rc, out, err, to, _ = sh(['llvm-link-14', '-S'] + lls + ['-o', allll], timeout=300)
            if rc != 0: raise BuildError('llvm-link failed:\n' + err[-3000:])
        else:
            shutil.copy(lls[0], allll)
        minll = os.path.join(d, 'min.ll')
        keep = [job.entry] if job.entry else []
        api = ','.join(keep + ['main'])
        rc, out, err, to, _ = sh(['opt-14', '-S', '-internalize', '-internalize-public-api-list=' + api, '-globaldce', allll, '-o', minll], timeout=300)
        if rc != 0: raise BuildError('opt failed:\n' + err[-3000:])
        cfile = os.path.join(d, 'gen.c'); rep = os.path.join(d, 'gen.rep')
        cmd = [IR2C, minll, '-o', cfile, '--report', rep, '--keep-prefix', 'verif_', '--keep-prefix', 'wl_']
        for m in job.models: cmd += ['--models', os.path.join(VERIF, m)]
        for p in job.preludes: cmd += ['--prelude', p]
        for s in job.stubs: cmd += ['--stub', s]
        cmd += job.ir2c_flags
        rc, out, err, to, _ = sh(cmd, timeout=300)
        if rc != 0: raise BuildError('ir2c failed:\n' + err[-3000:])
        report = json.load(open(rep))
        if report.get('unmodelled'):
            raise BuildError('unmodelled externals (job refused): ' + ', '.join(report['unmodelled']))
        incs = ['-I' + RT, '-I' + os.path.join(VERIF, 'ir2c'), '-I' + os.path.join(VERIF, 'models')]
        inputs = [cfile]
        if not job.pdefs and job.maxalloc is None and os.path.getsize(cfile) > 2000000:
            # large closures (Message.cpp: 150 k lines of C) take ~10 s to parse; jobs without -D parameters share one goto binary per build
            gb = os.path.join(d, 'gen.gb')
            rc, out, err, to, _ = sh(['goto-cc', '-D__CPROVER__'] + incs + [cfile, '-o', gb], timeout=600)
            if rc == 0 and os.path.exists(gb): inputs = [gb]
        return {'dir': d, 'cbmc_inputs': inputs, 'cflags': incs, 'report': report, 'c': cfile}

    # ------------------------------------------------------------------ cbmc
    def cbmc_cmd(self, job, b, extra=()):
        cmd = ['cbmc'] + b['cbmc_inputs'] + self.gen_c_file(job, b) + b['cflags'] + defs_to_flags(job.pdefs)
        if job.fs_array: cmd += ['--max-field-sensitivity-array-size', str(job.fs_array)]
        if job.maxalloc is not None: cmd.append('-DIR2C_MAXALLOC=%d' % job.maxalloc)
        cmd += ['--function', job.entry, '--unwinding-assertions', '--drop-unused-functions', '--no-malloc-may-fail', '--json-ui', '--verbosity', '8']
        if job.unwind is not None: cmd += ['--unwind', str(job.unwind)]
        if job.unwindset: cmd += ['--unwindset', ','.join('%s:%d' % kv for kv in sorted(job.unwindset.items()))]
        if job.mode == 'func': cmd += ['--no-standard-checks']
        elif job.mode == 'memub': cmd += ['--pointer-overflow-check']   # forming/comparing out-of-bounds pointers: reported, never decides (and masks later properties as UNKNOWN)
        if job.object_bits: cmd += ['--object-bits', str(job.object_bits)]
        if job.solver == 'cadical': cmd += ['--sat-solver', 'cadical']
        elif job.solver == 'kissat': cmd += ['--external-sat-solver', 'kissat']
        if job.slice_formula: cmd += ['--slice-formula']
        cmd += job.extra_cbmc
        cmd += list(extra)
        if os.environ.get('VERIF_SHOWCMD'): print('CMD[%s] (cd %s && %s)' % (job.name, b['dir'], ' '.join("'%s'" % c for c in cmd)), flush=True)
        return cmd

    def resolve_loop_rules(self, job, b):
        """turn per-function loop bounds into --unwindset entries for the loops that exist in this program"""
        if not job.loop_rules: return
        key = 'loops_' + job.build_key() + job.entry
        with self.build_lock: loops = self.builds.get(key)
        if loops is None:
            cmd = ['cbmc'] + b['cbmc_inputs'] + self.gen_c_file(job, b) + b['cflags'] + defs_to_flags(job.pdefs) + ['--function', job.entry, '--drop-unused-functions', '--show-loops', '--json-ui']
            rc, out, err, to, _ = sh(cmd, cwd=b['dir'], timeout=600)
            loops = []
            try:
                for m in json.loads(out):
                    if isinstance(m, dict) and 'loops' in m:
                        for l in m['loops']: loops.append((l['name'], (l.get('sourceLocation') or {}).get('function', ''), os.path.basename((l.get('sourceLocation') or {}).get('file', ''))))
            except Exception: pass
            with self.build_lock: self.builds[key] = loops
        for name, fn, fil in loops:
            if name in job.unwindset: continue
            if fn in job.loop_rules: job.unwindset[name] = job.loop_rules[fn]
            elif fil + ':' in job.loop_rules: job.unwindset[name] = job.loop_rules[fil + ':']
            else:
                for k, v in job.loop_rules.items():      # 're:<regex>' keys match the (mangled) function name
                    if k.startswith('re:') and re.search(k[3:], fn): job.unwindset[name] = v; break

    def gen_c_file(self, job, b):
        if not job.gen_c: return []
        h = hashlib.sha1(job.gen_c.encode()).hexdigest()[:16]
        f = os.path.join(b['dir'], 'gen_%s.c' % h)
        if not os.path.exists(f):
            tmp = f + '.%d.tmp' % threading.get_ident()
            open(tmp, 'w').write(job.gen_c); os.replace(tmp, f)
        return [f]

    def select_properties(self, job, b):
        key = 'props_' + job.build_key() + job.entry + json.dumps(sorted(job.pdefs.items())) + str(job.maxalloc) + hashlib.sha1((job.gen_c or '').encode()).hexdigest()
        with self.build_lock:
            if key in self.builds: return self.builds[key]
        for _attempt in range(40):
            cmd = [c for c in self.cbmc_cmd(job, b) if c not in ('--unwinding-assertions',)] + ['--show-properties']
            rc, out, err, to, _ = sh(cmd, cwd=b['dir'], timeout=600)
            g = re.search(r'invalid loop identifier ([^\s"\\]+)', out)
            if g and g.group(1) in job.unwindset: del job.unwindset[g.group(1)]; continue
            break
        try: data = json.loads(out)
        except Exception: raise BuildError('show-properties failed: ' + (out[-400:] + err[-400:]))
        sel = []; dropped = 0
        for m in data:
            if isinstance(m, dict) and 'properties' in m:
                for p in m['properties']:
                    d = p.get('description', '')
                    if d.startswith('pointer relation') or d.startswith('pointer arithmetic'): dropped += 1
                    else: sel.append(p['name'])
        if not sel: raise BuildError('show-properties returned nothing: ' + out[-400:])
        with self.build_lock: self.builds[key] = (sel, dropped)
        return sel, dropped

    @staticmethod
    def parse_cbmc(out):
        """returns (results list, stats dict, error text)"""
        try:
            data = json.loads(out)
        except Exception:
            # truncated output (killed): try to salvage
            return None, {}, 'unparsable cbmc output: ' + out[-500:]
        results = None; stats = {}; errs = []
        for m in data:
            if not isinstance(m, dict): continue
            if 'result' in m: results = m['result']
            mt = m.get('messageText')
            if mt:
                g = re.search(r'(\d+) variables, (\d+) clauses', mt)
                if g: stats['variables'] = max(stats.get('variables', 0), int(g.group(1))); stats['clauses'] = max(stats.get('clauses', 0), int(g.group(2)))
                g = re.search(r'Runtime Solver: ([\d.e+-]+)s', mt)
                if g: stats['solver_s'] = stats.get('solver_s', 0.0) + float(g.group(1))
                g = re.search(r'Runtime decision procedure: ([\d.e+-]+)s', mt)
                if g: stats['decision_s'] = stats.get('decision_s', 0.0) + float(g.group(1))
                g = re.search(r'size of program expression: (\d+) steps', mt)
                if g: stats['ssa_steps'] = int(g.group(1))
                g = re.search(r'Generated (\d+) VCC\(s\), (\d+) remaining', mt)
                if g: stats['vccs'] = int(g.group(1)); stats['vccs_remaining'] = int(g.group(2))
                if m.get('messageType') == 'ERROR': errs.append(mt)
        return results, stats, '\n'.join(errs)

    @staticmethod
    def classify(r):
        """class of one CBMC property result"""
        pid = r.get('property', ''); desc = r.get('description', '')
        if desc.startswith('VERIF_WITNESS'): return 'witness'
        if '.unwind.' in pid or '.recursion' in pid or 'unwinding assertion' in desc or 'recursion unwinding' in desc: return 'unwind'
        if '.pointer_arithmetic.' in pid or 'pointer arithmetic' in desc or 'pointer relation' in desc: return 'ub_pointer'
        if '.no-body.' in pid or 'no body for callee' in desc or '.no_body' in pid: return 'nobody'
        return 'prop'

    def run_job(self, job):
        t0 = time.time()
        res = {'job': job.descriptor(), 'status': None, 'failed': [], 'ub': [], 'witness': False, 'stats': {}, 'wall_s': 0, 'rss_mb': 0}
        try:
            b = self.get_build(job)
        except BuildError as e:
            res['status'] = 'build_error'; res['error'] = str(e)
            job.result = res
            return res
        if b.get('report'):
            with self.loglock:
                self.functions_encoded.update(b['report'].get('defined', []))
        timeout = job.timeout or (150 if self.tier == 'quick' else 900)
        mem = job.mem_gb or (12 if self.tier == 'quick' else 20)
        self.resolve_loop_rules(job, b)
        weight = min(MEM_BUDGET_GB, job.mem_gb or 3)      # jobs without a declared need measured < 1 GB; declared ones reserve their cap
        MEMSEM.acquire(weight)
        try:
            return self.run_job_locked(job, b, res, timeout, mem)
        finally:
            MEMSEM.release(weight)

    def run_job_locked(self, job, b, res, timeout, mem):
        extra = []
        if job.mode == 'mem' and job.engine == 'A':   # Engine B: ir2c emits pointer orderings through IR2C_PTRCMP, so the generated C contains no 'pointer relation' checks to drop
            # CBMC treats a failed standard check as fatal and reports later properties on such paths as UNKNOWN.  MicroMessage.c (and others)
            # form and compare out-of-bounds pointers by design; those 'pointer relation'/'pointer arithmetic' checks are unconfirmable UB that
            # never decides a verdict (DESIGN 3.1), so they are removed from the query instead of being allowed to mask what follows them.
            try:
                sel, dropped = self.select_properties(job, b)
            except BuildError as e:
                res['status'] = 'tool_error'; res['error'] = str(e); job.result = res; return res
            res['ub_checks_dropped'] = dropped
            for n in sel: extra += ['--property', n]
        for _attempt in range(40):
            cmd = ['/usr/bin/time', '-f', 'MAXRSS_KB=%M'] + self.cbmc_cmd(job, b, extra=extra)
            rc, out, err, to, wall = sh(cmd, cwd=b['dir'], timeout=timeout, mem_gb=mem)
            # the job tables name recursion/loop bounds for every function a harness family may reach; CBMC rejects names that are not in this
            # particular program (dropped as unreachable): remove such a name and run again
            g = re.search(r'invalid loop identifier ([^\s"\\]+)', out) if not to else None
            if g and g.group(1) in job.unwindset: del job.unwindset[g.group(1)]; continue
            break
        g = re.search(r'MAXRSS_KB=(\d+)', err)
        if g: res['rss_mb'] = int(g.group(1)) // 1024
        res['wall_s'] = round(wall, 2)
        res['cmd'] = ' '.join(cmd[3:])
        if to:
            res['status'] = 'inconclusive'; res['error'] = 'timeout after %ds' % timeout
            job.result = res; return res
        results, stats, errtxt = self.parse_cbmc(out)
        res['stats'] = stats
        if results is None:
            oom = 'std::bad_alloc' in err or 'Out of memory' in err or rc in (-9, 137, -6, 134)
            res['status'] = 'inconclusive' if oom else 'tool_error'
            res['error'] = (errtxt or err[-800:] or out[-800:])
            job.result = res; return res
        nprops = 0
        for r in results:
            c = self.classify(r)
            if c != 'witness': nprops += 1
            if r.get('status') == 'FAILURE':
                if c == 'witness': res['witness'] = True; res['witness_id'] = r['property']
                elif c == 'ub_pointer': res['ub'].append({'property': r['property'], 'description': r.get('description'), 'loc': self.loc(r)})
                elif c == 'unwind' and not job.unwind_is_property: res.setdefault('unwind_fail', []).append({'property': r['property'], 'loc': self.loc(r)})
                elif c == 'nobody': res.setdefault('nobody', []).append(r.get('description'))
                else: res['failed'].append({'property': r['property'], 'description': r.get('description'), 'loc': self.loc(r), 'class': c})
            elif r.get('status') not in ('SUCCESS',):
                res.setdefault('other', []).append({'property': r['property'], 'status': r.get('status')})
        res['properties_checked'] = nprops
        if res.get('nobody'): res['status'] = 'tool_error'; res['error'] = 'no body for: ' + ', '.join(sorted(set(res['nobody'])))
        elif res.get('other') and not res['failed']: res['status'] = 'tool_error'; res['error'] = 'properties with undecided status: ' + json.dumps(res['other'][:3])
        elif res.get('unwind_fail'): res['status'] = 'bound_error'; res['error'] = 'unwinding bound too small: ' + json.dumps(res['unwind_fail'][:3])
        elif res['failed']: res['status'] = 'counterexample'
        elif not res['witness']: res['status'] = 'vacuous'
        else: res['status'] = 'holds'
        job.result = res
        return res

    @staticmethod
    def loc(r):
        s = r.get('sourceLocation') or {}
        return '%s:%s:%s' % (os.path.basename(s.get('file', '?')), s.get('function', '?'), s.get('line', '?'))

    # ------------------------------------------------------------------ counterexample -> replay vector
    def extract_vector(self, job, prop_id):
        b = self.get_build(job)
        saved_slice = job.slice_formula; job.slice_formula = False     # formula slicing removes the input-recording assignments from the trace
        try:
            return self.extract_vector_aux(job, b, prop_id)
        finally:
            job.slice_formula = saved_slice

    def extract_vector_aux(self, job, b, prop_id):
        if '.unwind.' in prop_id or '.recursion' in prop_id:
            # unwinding assertions are created during symbolic execution and cannot be selected with --property; select only the
            # witness assertion (which drops every other instrumented property) and read the unwinding assertion's trace
            wid = job.result.get('witness_id') if job.result else None
            cmd = self.cbmc_cmd(job, b, extra=(['--property', wid] if wid else []) + ['--trace'])
        else:
            cmd = self.cbmc_cmd(job, b, extra=['--property', prop_id, '--trace'])
        timeout = (job.timeout or (150 if self.tier == 'quick' else 900)) * 2
        rc, out, err, to, wall = sh(cmd, cwd=b['dir'], timeout=timeout, mem_gb=24)
        if to: return None
        try: data = json.loads(out)
        except Exception: return None
        vec = []
        for m in data:
            if isinstance(m, dict) and 'result' in m:
                for r in m['result']:
                    if r.get('property') == prop_id and r.get('status') == 'FAILURE':
                        for s in r.get('trace', []):
                            if s.get('stepType') == 'assignment' and str(s.get('lhs', '')).startswith('verif_in_u'):
                                fn = (s.get('sourceLocation') or {}).get('function', '')
                                if not fn.startswith('nondet_u'): continue
                                w = int(s['lhs'][len('verif_in_u'):])
                                v = s['value']
                                val = int(v['binary'], 2) if 'binary' in v else int(re.sub(r'[^0-9-]', '', v.get('data', '0')))
                                vec.append((w, val & ((1 << w) - 1)))
                        return vec
        return None

    # ------------------------------------------------------------------ native builds (replay + differential)
    def native_build(self, job, sanitize=True, tag='nat'):
        """compile the same harness source natively against the real code"""
        key = job.build_key() + '_' + tag + ('_san' if sanitize else '') + hashlib.sha1((job.gen_c or '').encode()).hexdigest()[:10]
        with self.build_lock:
            if key not in self.build_locks: self.build_locks[key] = threading.Lock()
            lk = self.build_locks[key]
        with lk:
            if key in self.builds: return self.builds[key]
            d = os.path.join(self.work, 'N_' + key); os.makedirs(d, exist_ok=True)
            exe = os.path.join(d, 'native')
            san = ['-fsanitize=address,undefined', '-fno-sanitize=vptr', '-fno-sanitize-recover=undefined', '-fno-omit-frame-pointer', '-g'] if sanitize else []
            defs = defs_to_flags(job.cdefs) + defs_to_flags(job.pdefs) + defs_to_flags(job.native_defs) + ['-DVERIF_NATIVE', '-DHARNESS=' + job.entry]
            nsrcs = job.native_srcs if job.native_srcs is not None else job.srcs
            genfiles = []
            if job.gen_c:
                gf = os.path.join(d, 'gen_layout.c'); open(gf, 'w').write(job.gen_c); genfiles = [gf]
            if job.engine == 'A':
                finc = []
                for inc in job.force_include: finc += ['-include', os.path.join(VERIF, inc)]
                cmd = ['gcc', '-O1', '-w', '-I' + REPO, '-I' + RT, '-I' + os.path.join(VERIF, 'harness', 'c')] + san + defs + job.extra_clang + finc + \
                      [os.path.join(VERIF, job.harness)] + [os.path.join(REPO, s) for s in nsrcs] + genfiles + [os.path.join(RT, 'native_rt.c'), '-o', exe, '-lm']
                rc, out, err, to, _ = sh(cmd, timeout=600)
            else:
                o = os.path.join(d, 'native_rt.o')
                rc, out, err, to, _ = sh(['gcc', '-O1', '-w', '-c', '-DHARNESS=' + job.entry, os.path.join(RT, 'native_rt.c'), '-o', o] + san, timeout=120)
                if rc == 0:
                    cmd = ['g++'] + GXX_FLAGS + ['-I' + os.path.join(VERIF, 'harness', 'cpp')] + san + defs + [x for x in job.extra_clang if x.startswith('-D') or x.startswith('-I') or x.startswith('-include')] + \
                          [os.path.join(VERIF, job.harness)] + [os.path.join(REPO, s) for s in nsrcs] + [os.path.join(RT, 'native_stubs.cpp')] + ['-x', 'c'] + genfiles + ['-x', 'none', o, '-o', exe, '-lpthread', '-lz', '-lm']
                    rc, out, err, to, _ = sh(cmd, timeout=900)
            if rc != 0:
                self.builds[key] = None
                self.log('NATIVE BUILD FAILED for %s:\n%s' % (job.name, err[-2500:]))
                return None
            self.builds[key] = exe
            return exe

    def gen_native_build(self, job):
        """compile the ir2c-generated C natively (for the translator differential)"""
        b = self.get_build(job)
        key = job.build_key() + '_gen' + hashlib.sha1((job.gen_c or '').encode()).hexdigest()[:10]
        with self.build_lock:
            if key not in self.build_locks: self.build_locks[key] = threading.Lock()
            lk = self.build_locks[key]
        with lk:
            if key in self.builds: return self.builds[key]
            exe = os.path.join(b['dir'], 'gen_native_' + hashlib.sha1((job.gen_c or '').encode()).hexdigest()[:10])
            cmd = ['gcc', '-O1', '-w', '-fno-strict-aliasing', '-fwrapv', '-I' + RT, '-I' + os.path.join(VERIF, 'ir2c'), '-I' + os.path.join(VERIF, 'models'), '-DHAVE_CTORS', '-DHARNESS=' + job.entry] + \
                  defs_to_flags(job.pdefs) + [b['c']] + self.gen_c_file(job, b) + [os.path.join(RT, 'native_rt.c'), '-o', exe, '-lm', '-lstdc++']
            rc, out, err, to, _ = sh(cmd, timeout=600)
            if rc != 0:
                self.log('GEN-NATIVE BUILD FAILED for %s:\n%s' % (job.name, err[-2500:]))
                self.builds[key] = None
                return None
            self.builds[key] = exe
            return exe

    def differential(self, job, n):
        """translator validation: same harness, same pseudo-random vectors, ir2c output (gcc) vs real code (g++)"""
        try:
            a = self.gen_native_build(job); b = self.native_build(job, sanitize=False, tag='diff')
        except BuildError as e:
            return {'job': job.name, 'status': 'build_failed', 'error': str(e)[-1500:]}
        if not a or not b:
            return {'job': job.name, 'status': 'build_failed'}
        ra = sh([a, 'diff', str(n), str(self.seed)], timeout=300); rb = sh([b, 'diff', str(n), str(self.seed)], timeout=300)
        la = ra[1].strip().split('\n'); lb = rb[1].strip().split('\n')
        mism = [(x, y) for x, y in zip(la, lb) if x != y]
        ok = (ra[0] == 0 and rb[0] == 0 and len(la) == len(lb) and not mism and la and la[-1].startswith('SUMMARY'))
        r = {'job': job.name, 'status': 'agree' if ok else 'MISMATCH', 'vectors': n, 'summary': la[-1] if la else ''}
        if not ok: r['first_mismatch'] = [mism[0][0], mism[0][1]] if mism else ['rc=%s %s' % (ra[0], ra[2][-300:]), 'rc=%s %s' % (rb[0], rb[2][-300:])]
        return r

    def replay(self, job, vec, outpath):
        exe = self.native_build(job, sanitize=True)
        os.makedirs(os.path.dirname(outpath), exist_ok=True)
        meta = {'property': self.prop, 'job': job.descriptor(), 'cdefs': job.cdefs, 'pdefs': job.pdefs, 'native_defs': job.native_defs, 'srcs': job.srcs, 'native_srcs': job.native_srcs,
                'engine': job.engine, 'harness': job.harness, 'entry': job.entry, 'extra_clang': job.extra_clang, 'gen_c': job.gen_c, 'force_include': job.force_include, 'vector': [[w, v] for (w, v) in vec]}
        json.dump(meta, open(outpath, 'w'), indent=1)
        if not exe: return 'native_build_failed', ''
        return run_replay_exe(exe, vec, os.path.dirname(outpath))


def run_replay_exe(exe, vec, tmpdir):
    vf = os.path.join(tmpdir, '.vec_%d_%d' % (os.getpid(), threading.get_ident()))
    with open(vf, 'w') as f:
        for w, v in vec: f.write('%d %d\n' % (w, v))
    env = dict(os.environ); env['ASAN_OPTIONS'] = 'detect_leaks=0:abort_on_error=0:exitcode=99:allocator_may_return_null=1:max_allocation_size_mb=3000'; env['UBSAN_OPTIONS'] = 'halt_on_error=1:exitcode=98:print_stacktrace=1'
    rc, out, err, to, _ = sh([exe, 'replay', vf, '10'], timeout=60, env=env)
    try: os.unlink(vf)
    except OSError: pass
    txt = (out + '\n' + err)[-6000:]
    if to or rc == 5: return 'violation_nontermination', txt
    if rc == 3: return 'violation_assertion', txt
    if rc == 99 or 'AddressSanitizer' in err: return 'violation_asan', txt
    if rc == 98 or 'runtime error:' in err: return 'violation_ubsan', txt
    if rc in (-6, 134, -11, 139, -8, 136): return 'violation_crash', txt
    if rc == 4: return 'infeasible', txt
    if rc == 0: return 'passed', txt
    return 'violation_crash', txt


# ---------------------------------------------------------------------- known findings
def load_known():
    """known_findings.txt lines:
         finding: property=C02 match=<regex over 'family|failing-location|description'> :: text
         fixed: property=C02 <commit> <text>       (suppresses nothing)"""
    path = os.path.join(VERIF, 'known_findings.txt')
    out = []
    if os.path.exists(path):
        for l in open(path):
            l = l.strip()
            g = re.match(r'finding:\s+property=(\S+)\s+match=(\S+)\s+::\s*(.*)', l)
            if g: out.append({'property': g.group(1), 'match': g.group(2), 'text': g.group(3)})
    return out


def run_property(prop, tier, seed, jobs, meta, diff_jobs=(), diff_n=None):
    """meta: dict(rule=..., bounds=..., outside=..., assumptions=[...], level='model_checking')"""
    if os.environ.get('VERIF_FILTER'):     # development aid (used when trying seeded changes): run only the jobs whose name matches; never set by the registered commands
        rx = re.compile(os.environ['VERIF_FILTER']); jobs = [j for j in jobs if rx.search(j.name)]; diff_jobs = [j for j in diff_jobs if rx.search(j.name)]
    R = Runner(prop, tier, seed)
    known = [k for k in load_known() if k['property'] == prop]
    t0 = time.time()
    exit_code = 0
    violations = []; known_hits = []; unconfirmed = []; errors = []; inconclusive = []
    try:
        # 1. translator differential
        dn = diff_n or (2000 if tier == 'quick' else 20000)
        diffs = []
        with ThreadPoolExecutor(max_workers=NCPU) as ex:
            futs = [ex.submit(R.differential, j, dn) for j in diff_jobs]
            for f in futs: diffs.append(f.result())
        for d in diffs:
            if d['status'] != 'agree':
                errors.append('translator differential: %s' % json.dumps(d))
        # 2. solver jobs (longest first is unknown; keep given order)
        results = []
        with ThreadPoolExecutor(max_workers=NCPU) as ex:
            futs = {ex.submit(R.run_job, j): j for j in jobs}
            done = 0
            for f in as_completed(futs):
                j = futs[f]; r = f.result(); done += 1
                R.log('[%s %d/%d] %-40s %-14s %6.1fs vars=%s%s' % (prop, done, len(jobs), j.name, r['status'], r['wall_s'], r['stats'].get('variables', '-'),
                                                             (' ' + str(r.get('error'))[:300]) if r.get('error') else ''))
        # 3. counterexamples -> replay
        cex_jobs = [j for j in jobs if j.result['status'] == 'counterexample']
        def handle(j):
            outs = []
            seen_vec = set()
            for fp in j.result['failed'][:6]:
                vec = R.extract_vector(j, fp['property'])
                rp = os.path.join(VERIF, 'replays', prop, '%s__%s.json' % (re.sub(r'[^A-Za-z0-9_.-]', '_', j.name), re.sub(r'[^A-Za-z0-9_.-]', '_', fp['property'])))
                if vec is None:
                    outs.append((fp, 'no_trace', '', rp)); continue
                st, txt = R.replay(j, vec, rp)
                outs.append((fp, st, txt, rp))
            return j, outs
        with ThreadPoolExecutor(max_workers=NCPU) as ex:
            for j, outs in ex.map(handle, cex_jobs):
                for fp, st, txt, rp in outs:
                    sig = '%s|%s|%s' % (j.family, fp['loc'], fp['description'])
                    rec = {'job': j.name, 'property': fp['property'], 'description': fp['description'], 'loc': fp['loc'], 'replay': st, 'replay_file': rp, 'signature': sig}
                    if st in ('native_build_failed', 'no_trace'):
                        errors.append('%s: counterexample for "%s" could not be replayed (%s)' % (j.name, fp['description'], st)); unconfirmed.append(rec)
                        continue
                    if fp.get('class') == 'unwind' and not st.startswith('violation'):
                        errors.append('%s: unwinding bound too small (the loop terminates natively on the counterexample input): %s at %s' % (j.name, fp['property'], fp['loc']))
                        continue
                    if st.startswith('violation'):
                        k = next((k for k in known if re.search(k['match'], sig)), None)
                        if k: rec['known'] = k['text']; known_hits.append((k, rec))
                        else: violations.append(rec); rec['native_output'] = txt[-1500:]
                    else:
                        rec['native_output'] = txt[-600:]
                        unconfirmed.append(rec)
        for j in jobs:
            st = j.result['status']
            if st == 'inconclusive': inconclusive.append({'job': j.name, 'error': j.result.get('error')})
            elif st in ('build_error', 'tool_error', 'bound_error', 'vacuous'): errors.append('%s: %s %s' % (j.name, st, str(j.result.get('error', ''))[:600]))
        # 4. report
        printed = set()
        for k, rec in known_hits:
            if k['match'] not in printed:
                print('KNOWN-FINDING: property=%s %s' % (prop, k['text'])); printed.add(k['match'])
        for v in violations:
            print('VIOLATION property=%s replay=%s' % (prop, v['replay_file']))
            print('  job=%s failed="%s" at %s native=%s' % (v['job'], v['description'], v['loc'], v['replay']))
        for u in unconfirmed:
            R.log('ENCODING-MISMATCH (counterexample did not replay natively; not reported as violation): %s' % json.dumps(u)[:800])
        for e in errors: R.log('CHECK-ERROR: ' + e)
        for i in inconclusive: R.log('INCONCLUSIVE: ' + json.dumps(i))
        if violations: exit_code = 1
        elif errors: exit_code = 2
        # 5. evidence
        holds = [j for j in jobs if j.result['status'] == 'holds']
        nontriv = [j for j in jobs if j.result.get('witness')]
        solver_s = sum(j.result['stats'].get('decision_s', 0.0) for j in jobs)
        ub = []
        for j in jobs:
            for u in j.result.get('ub', [])[:3]: ub.append({'job': j.name, **u})
        samples = []
        for j in jobs[:: max(1, len(jobs) // 12)][:12]:
            s = dict(j.result['job']); s['status'] = j.result['status']; s['sat_variables'] = j.result['stats'].get('variables'); s['sat_clauses'] = j.result['stats'].get('clauses')
            s['wall_s'] = j.result['wall_s']; s['properties_checked'] = j.result.get('properties_checked')
            samples.append(s)
        fe = sorted(R.functions_encoded)
        ev = {
            'property_id': prop, 'tier': tier, 'seed': seed, 'level': meta.get('level', 'model_checking'),
            'coverage': {
                'evaluations': len(jobs),
                'distinct_nontrivial': len(set(j.name for j in nontriv)),
                'rule': meta['rule'],
                'samples': samples,
                'explanation': meta.get('explanation', ''),
                'queries_discharged': sum(1 for j in jobs if j.result['status'] in ('holds', 'counterexample')),
                'jobs_holding': len(holds),
                'cbmc_properties_checked': sum(j.result.get('properties_checked', 0) or 0 for j in jobs),
                'functions_encoded': meta.get('functions_encoded', []) + fe[:400],
                'functions_encoded_count': len(fe) + len(meta.get('functions_encoded', [])),
                'bounds': meta.get('bounds', ''),
                'outside_bounds': meta.get('outside', ''),
                'solver_time_s': round(solver_s, 1),
                'cpu_wall_sum_s': round(sum(j.result['wall_s'] for j in jobs), 1),
                'max_rss_mb': max([j.result.get('rss_mb', 0) for j in jobs] or [0]),
                'max_sat_variables': max([j.result['stats'].get('variables', 0) for j in jobs] or [0]),
                'inconclusive': inconclusive,
                'unconfirmed_counterexamples': unconfirmed,
                'unconfirmable_ub': ub[:40],
                'known_findings_hit': [dict(rec, known=k['text']) for k, rec in known_hits][:40],
                'violations': violations[:40],
                'translator_differential': diffs,
                'check_errors': errors[:40],
            },
            'assumptions': meta.get('assumptions', []),
            'wall_s': round(time.time() - t0, 1),
            'violations': len(violations),
        }
        os.makedirs(os.path.join(VERIF, 'evidence'), exist_ok=True)
        json.dump(ev, open(os.path.join(VERIF, 'evidence', prop + '.json'), 'w'), indent=1)
        print('%s %s: %d jobs, %d hold, %d non-vacuous, %d violations, %d known-finding hits, %d inconclusive, %d errors, %.0fs' % (
            prop, tier, len(jobs), len(holds), len(nontriv), len(violations), len(known_hits), len(inconclusive), len(errors), time.time() - t0))
    finally:
        R.cleanup()
    return exit_code
