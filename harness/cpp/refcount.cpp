// C10 -- reference-counted objects are released exactly once, never early (sequential histories).
// Shape (ir2c_param 0..3): the KINDS of four consecutive Ref operations.  Symbolic: which of the three Ref variables / two objects each operation acts on.
// Oracle: an ownership table kept by the harness: after every step an object's destructor has run exactly once iff it was owned and no Ref designates it any more,
// it has never run otherwise, and a live object's reference count equals the number of Refs designating it.
#include "util/RefCount.h"
#include "vsym.h"
using namespace muscle;

static int g_destroyed[2];
class Obj : public RefCountable {
public:
   Obj(int id) : _id(id), _payload(0x5a5a0000+id) {}
   virtual ~Obj() {g_destroyed[_id]++; _payload = 0;}
   int _id; uint32 _payload;
};
typedef Ref<Obj> ObjRef;

static Obj * g_obj[2];
static int own[3];          // oracle: which object Ref i designates, or -1
static bool everOwned[2];

static void CheckAll(const ObjRef * r)
{
   for (int o=0; o<2; o++)
   {
      int cnt = 0; for (int i=0; i<3; i++) if (own[i] == o) cnt++;
      const int expectDestroyed = ((everOwned[o])&&(cnt == 0)) ? 1 : 0;
      CHECK(g_destroyed[o] == expectDestroyed, "destructor has run exactly once iff the last Ref is gone, and never before");
      if (g_destroyed[o] == 0)
      {
         CHECK(g_obj[o]->GetRefCount() == (uint32) cnt, "reference count equals the number of Refs designating the object");
         CHECK(g_obj[o]->_payload == (uint32)(0x5a5a0000+o), "a live object is intact");
      }
      verif_observe((uint64)g_destroyed[o]*8+cnt);
   }
   for (int i=0; i<3; i++)
   {
      const Obj * p = r[i]();
      CHECK(p == ((own[i] >= 0) ? g_obj[own[i]] : NULL), "each Ref designates the object the ideal history says");
      CHECK(r[i].IsValid() == (own[i] >= 0), "IsValid");
   }
}
static uint32 Pick(uint32 n) {uint32 v = nondet_u8(); ASSUME(v < n); return v;}

static void Step(ObjRef * r, uint32 kind)
{
   const uint32 a = Pick(3), b = Pick(3);
   switch(kind)
   {
      case 0: {const uint32 o = Pick(2); ASSUME(g_destroyed[o] == 0); r[a].SetRef(g_obj[o]); own[a] = (int)o; everOwned[o] = true;} break;   // adopt / share through the raw pointer
      case 1: r[a] = r[b]; own[a] = own[b]; break;                                                                                          // copy-assign (a may equal b)
      case 2: r[a].Reset(); own[a] = -1; break;
      case 3: {r[a].SwapContents(r[b]); const int t = own[a]; own[a] = own[b]; own[b] = t;} break;
      case 4: {r[a] = static_cast<ObjRef &&>(r[b]); const int t = own[a]; own[a] = own[b]; own[b] = t;} break;                              // move-assign: documented as a swap of contents
      case 5: {ObjRef tmp(r[a]); CHECK(tmp() == r[a](), "copy designates the same object"); if (own[a] >= 0) CHECK(g_obj[own[a]]->GetRefCount() >= 2, "copy holds its own reference");} break;   // temporary copy, destroyed at scope exit
      case 6: {ObjRef tmp; tmp = r[a]; r[a].Reset(); r[b] = tmp; own[b] = own[a]; if (a != b) own[a] = -1;} break;                            // hand-over through a temporary
      default: break;
   }
}

extern "C" void harness_refcount(void)
{
   g_obj[0] = new Obj(0); g_obj[1] = new Obj(1); ASSUME((g_obj[0] != NULL)&&(g_obj[1] != NULL));
   own[0] = own[1] = own[2] = -1;
   {
      ObjRef r[3];
      const uint32 kinds[4] = {ir2c_param_0(), ir2c_param_1(), ir2c_param_2(), ir2c_param_3()};
      for (uint32 s=0; s<4; s++) {if (kinds[s] != 99) {Step(r, kinds[s]); CheckAll(r);}}
      // leaving the scope releases whatever is still held
   }
   for (int o=0; o<2; o++) CHECK(g_destroyed[o] == (everOwned[o] ? 1 : 0), "at the end every owned object has been destroyed exactly once");
   VERIF_REACHED();
}
