// C09 -- Hashtable behaves as an insertion-ordered map (probe: symbolic keys in a small domain, symbolic hash function)
#include "util/Hashtable.h"
#include "vsym.h"
using namespace muscle;
#define MAXK 6
static uint32 g_hash[MAXK];
struct Key {
   Key() : k(0) {}
   Key(uint32 kk) : k(kk) {}
   bool operator==(const Key & r) const {return k == r.k;}
   bool operator!=(const Key & r) const {return k != r.k;}
   uint32 HashCode() const {return g_hash[k % MAXK];}      // the solver chooses the hash function, hence the collision pattern
   uint32 k;
};
struct Model {uint32 key[8]; uint32 val[8]; uint32 n;};
static int MFind(const Model & m, uint32 k) {for (uint32 i=0;i<m.n;i++) if (m.key[i]==k) return (int)i; return -1;}
static void MPut(Model & m, uint32 k, uint32 v) {const int i = MFind(m,k); if (i>=0) m.val[i]=v; else {m.key[m.n]=k; m.val[m.n]=v; m.n++;}}
static void MRemove(Model & m, uint32 k) {const int i = MFind(m,k); if (i>=0) {for (uint32 j=(uint32)i+1;j<m.n;j++) {m.key[j-1]=m.key[j]; m.val[j-1]=m.val[j];} m.n--;}}
static void CheckAll(const Hashtable<Key,uint32> & t, const Model & m)
{
   CHECK(t.GetNumItems() == m.n, "size");
   uint32 i = 0;
   for (ConstHashtableIterator<Key,uint32> it(t); it.HasData(); it++) {CHECK(i < m.n, "forward iteration is not longer than the model"); if (i < m.n) {CHECK(it.GetKey().k == m.key[i], "forward iteration: key order = insertion order"); CHECK(it.GetValue() == m.val[i], "forward iteration: value");} i++;}
   CHECK(i == m.n, "forward iteration visits every entry");
   for (uint32 k=0; k<MAXK; k++) {const uint32 * v = t.Get(Key(k)); const int mi = MFind(m,k); CHECK((v != NULL) == (mi >= 0), "Get finds exactly the present keys"); if ((v)&&(mi>=0)) CHECK(*v == m.val[mi], "Get value");}
}
static uint32 SymKey() {uint32 k = nondet_u8(); ASSUME(k < MAXK); return k;}
extern "C" void harness_ht(void)
{
   for (uint32 i=0;i<MAXK;i++) g_hash[i] = nondet_u32();
   Hashtable<Key,uint32> t; Model m; m.n = 0;
   const uint32 kinds[4] = {ir2c_param_0(), ir2c_param_1(), ir2c_param_2(), ir2c_param_3()};
   for (uint32 s=0; s<4; s++)
   {
      const uint32 k = SymKey(), v = nondet_u32();
      switch(kinds[s])
      {
         case 0: CHECK(t.Put(Key(k), v).IsOK(), "Put succeeds"); MPut(m, k, v); break;
         case 1: {const bool had = (MFind(m,k) >= 0); CHECK(t.Remove(Key(k)).IsOK() == had, "Remove status"); MRemove(m, k);} break;
         case 2: {const int i = MFind(m,k); if (i>=0) {CHECK(t.MoveToFront(Key(k)).IsOK(), "MoveToFront"); const uint32 kk=m.key[i], vv=m.val[i]; for (uint32 j=(uint32)i;j>0;j--) {m.key[j]=m.key[j-1]; m.val[j]=m.val[j-1];} m.key[0]=kk; m.val[0]=vv;} else CHECK(t.MoveToFront(Key(k)).IsError(), "MoveToFront of an absent key fails");} break;
         case 3: {const int i = MFind(m,k); if (i>=0) {CHECK(t.MoveToBack(Key(k)).IsOK(), "MoveToBack"); const uint32 kk=m.key[i], vv=m.val[i]; for (uint32 j=(uint32)i+1;j<m.n;j++) {m.key[j-1]=m.key[j]; m.val[j-1]=m.val[j];} m.key[m.n-1]=kk; m.val[m.n-1]=vv;} else CHECK(t.MoveToBack(Key(k)).IsError(), "MoveToBack of an absent key fails");} break;
         case 4: t.Clear(); m.n = 0; break;
         default: break;
      }
      if (kinds[s] != 99) CheckAll(t, m);
   }
   VERIF_REACHED();
}
