// C09 -- Hashtable behaves as an ordered map, and live iterators survive any mutation.
// The real util/Hashtable.h + util/HashtableIterator.h templates are instantiated for a harness key type whose hash function is chosen by the solver
// (so every collision pattern of the keys in play is covered), and executed symbolically:
//    prefix: n Puts of pairwise distinct symbolic keys (insertion order = model order), optionally into a table shrunk to P3 slots first, so that
//            the operation under test crosses a growth/reallocation; then (optionally) a live iterator advanced a symbolic number of steps;
//    then ONE operation under test (kind = P1) with symbolic arguments; then the rest of the live iterator's traversal; then a full comparison
//    with the reference model (an array-based ordered map written from the documentation in Hashtable.h).
// Shape (ir2c_param): 0 = n, 1 = operation, 2 = iterator (0 none, 1 forward, 2 backward), 3 = initial table size (0 = default), 4 = table class
// (0 Hashtable, 1 OrderedKeysHashtable, 2 OrderedValuesHashtable), 5 = operation-specific constant.
#include "util/Hashtable.h"
#include "vsym.h"
using namespace muscle;

#define MAXK 6       // key domain
#define MAXN 8       // model capacity
static uint32 g_hash[MAXK];
struct Key {
   Key() : k(0) {}
   Key(uint32 kk) : k(kk) {}
   bool operator==(const Key & r) const {return k == r.k;}
   bool operator!=(const Key & r) const {return k != r.k;}
   bool operator< (const Key & r) const {return k <  r.k;}
   bool operator> (const Key & r) const {return k >  r.k;}
   uint32 HashCode() const {return g_hash[k % MAXK];}      // the solver chooses the hash function, hence the collision pattern
   uint32 k;
};

struct Model {uint32 key[MAXN]; uint32 val[MAXN]; uint32 n;};
static int  MFind(const Model & m, uint32 k) {for (uint32 i=0;i<MAXN;i++) if ((i<m.n)&&(m.key[i]==k)) return (int)i; return -1;}
static void MRemoveAt(Model & m, uint32 i) {for (uint32 j=1;j<MAXN;j++) if ((j>i)&&(j<m.n)) {m.key[j-1]=m.key[j]; m.val[j-1]=m.val[j];} m.n--;}
static void MInsertAt(Model & m, uint32 pos, uint32 k, uint32 v) {if (pos > m.n) pos = m.n; for (uint32 j=MAXN-1;j>0;j--) if ((j>pos)&&(j<=m.n)) {m.key[j]=m.key[j-1]; m.val[j]=m.val[j-1];} m.key[pos]=k; m.val[pos]=v; m.n++;}
static void MMove(Model & m, uint32 i, uint32 pos) {const uint32 k=m.key[i], v=m.val[i]; MRemoveAt(m,i); MInsertAt(m,pos,k,v);}
static void MSort(Model & m, bool byValue)   // stable insertion sort
{
   for (uint32 i=1;i<MAXN;i++) if (i<m.n)
   {
      uint32 p = i;
      for (uint32 j=i;j>0;j--) if (p==j) {const bool gt = byValue ? (m.val[j-1] > m.val[j]) : (m.key[j-1] > m.key[j]); if (gt) {uint32 t=m.key[j];m.key[j]=m.key[j-1];m.key[j-1]=t; t=m.val[j];m.val[j]=m.val[j-1];m.val[j-1]=t; p=j-1;}}
   }
}

static uint32 SymKey() {const uint32 k = nondet_u8(); ASSUME(k < MAXK); return k;}
static uint32 SymVal() {return nondet_u8()&3;}     // values only get compared and copied; a 2-bit domain gives ties for the value-sorted table

template<class T> struct Kind           {enum {SORT=0};};
template<> struct Kind<OrderedKeysHashtable<Key,uint32> >   {enum {SORT=1};};
template<> struct Kind<OrderedValuesHashtable<Key,uint32> > {enum {SORT=2};};

// full comparison of a table with the model
template<class T> static void CheckAll(const T & t, const Model & m, bool exactOrder)
{
   CHECK(t.GetNumItems() == m.n, "size equals the ideal map's");
   CHECK(t.IsEmpty() == (m.n == 0), "IsEmpty");
   uint32 i = 0; uint32 seen = 0; uint32 prevVal = 0;
   for (ConstHashtableIterator<Key,uint32> it(t); it.HasData(); it++)
   {
      CHECK(i < m.n, "forward iteration is not longer than the ideal map");
      if (i < m.n)
      {
         if (exactOrder) {CHECK(it.GetKey().k == m.key[i], "forward iteration: key order"); CHECK(it.GetValue() == m.val[i], "forward iteration: value");}
         else
         {
            const int mi = MFind(m, it.GetKey().k); CHECK(mi >= 0, "iteration yields only keys of the ideal map"); if (mi >= 0) {CHECK(it.GetValue() == m.val[mi], "iteration: value"); CHECK((seen&(1u<<mi)) == 0, "iteration yields no key twice"); seen |= (1u<<mi);}
            if (i > 0) CHECK(prevVal <= it.GetValue(), "value-sorted table iterates in non-decreasing value order");
            prevVal = it.GetValue();
         }
      }
      i++; ASSUME(i <= MAXN);
   }
   CHECK(i == m.n, "forward iteration visits every entry");
   if (exactOrder)
   {
      uint32 j = m.n;
      for (ConstHashtableIterator<Key,uint32> it(t, HTIT_FLAG_BACKWARDS); it.HasData(); it++) {CHECK(j > 0, "backward iteration is not longer than the ideal map"); if (j > 0) {j--; CHECK(it.GetKey().k == m.key[j], "backward iteration: reverse key order"); CHECK(it.GetValue() == m.val[j], "backward iteration: value");} }
      CHECK(j == 0, "backward iteration visits every entry");
   }
   // a query for an arbitrary key
   const uint32 k = SymKey(); const int mi = MFind(m,k);
   const uint32 * v = t.Get(Key(k));
   CHECK((v != NULL) == (mi >= 0), "Get finds exactly the present keys"); if ((v)&&(mi>=0)) CHECK(*v == m.val[mi], "Get value");
}

// the other queries, for an arbitrary key and an arbitrary position (run on arbitrary prefix tables by the 'queries' jobs)
template<class T> static void CheckQueries(const T & t, const Model & m, bool exactOrder)
{
   const uint32 k = SymKey(); const int mi = MFind(m,k);
   CHECK(t.ContainsKey(Key(k)) == (mi >= 0), "ContainsKey");
   CHECK(t.GetWithDefault(Key(k), 77) == ((mi>=0) ? m.val[mi] : 77u), "GetWithDefault");
   uint32 gv = 55; CHECK(t.Get(Key(k), gv).IsOK() == (mi >= 0), "Get(key, retValue) status"); if (mi >= 0) CHECK(gv == m.val[mi], "Get(key, retValue) value");
   const Key * gk = t.GetKey(Key(k)); CHECK((gk != NULL) == (mi >= 0), "GetKey"); if ((gk)&&(mi >= 0)) CHECK(gk->k == k, "GetKey returns the stored key");
   const uint32 sv = SymVal(); bool has = false; for (uint32 i=0;i<MAXN;i++) if ((i<m.n)&&(m.val[i]==sv)) has = true;
   CHECK(t.ContainsValue(sv) == has, "ContainsValue");
   if (exactOrder)
   {
      const uint32 pos = nondet_u8(); ASSUME(pos <= MAXN);
      const Key * ka = t.GetKeyAt(pos); CHECK((ka != NULL) == (pos < m.n), "GetKeyAt is defined exactly for valid positions"); if ((ka)&&(pos < m.n)) CHECK(ka->k == m.key[pos], "GetKeyAt");
      const uint32 * va = t.GetValueAt(pos); CHECK((va != NULL) == (pos < m.n), "GetValueAt is defined exactly for valid positions"); if ((va)&&(pos < m.n)) CHECK(*va == m.val[pos], "GetValueAt");
      const Key * fk = t.GetFirstKey(); CHECK((fk != NULL) == (m.n > 0), "GetFirstKey"); if ((fk)&&(m.n>0)) CHECK(fk->k == m.key[0], "GetFirstKey value");
      const Key * lk = t.GetLastKey();  CHECK((lk != NULL) == (m.n > 0), "GetLastKey");  if ((lk)&&(m.n>0)) CHECK(lk->k == m.key[m.n-1], "GetLastKey value");
      const uint32 * fv = t.GetFirstValue(); CHECK((fv != NULL) == (m.n > 0), "GetFirstValue"); if ((fv)&&(m.n>0)) CHECK(*fv == m.val[0], "GetFirstValue value");
      const uint32 * lv = t.GetLastValue(); CHECK((lv != NULL) == (m.n > 0), "GetLastValue"); if ((lv)&&(m.n>0)) CHECK(*lv == m.val[m.n-1], "GetLastValue value");
      if (mi >= 0) {CHECK(t.IndexOfKey(Key(k)) == mi, "IndexOfKey");} else CHECK(t.IndexOfKey(Key(k)) == -1, "IndexOfKey of an absent key");
      const Key * kb = t.GetKeyBefore(Key(k)); CHECK((kb != NULL) == (mi > 0), "GetKeyBefore is defined exactly for present keys other than the first"); if ((kb)&&(mi > 0)) CHECK(kb->k == m.key[mi-1], "GetKeyBefore");
      const Key * kf = t.GetKeyAfter(Key(k)); CHECK((kf != NULL) == ((mi >= 0)&&((uint32)mi+1 < m.n)), "GetKeyAfter is defined exactly for present keys other than the last"); if ((kf)&&(mi >= 0)&&((uint32)mi+1 < m.n)) CHECK(kf->k == m.key[mi+1], "GetKeyAfter");
      // an iterator started at a key
      ConstHashtableIterator<Key,uint32> sit(t, Key(k), 0); CHECK(sit.HasData() == (mi >= 0), "an iterator started at a key has data exactly when the key is present");
      if ((sit.HasData())&&(mi >= 0)) {CHECK(sit.GetKey().k == k, "... and starts there"); sit++; CHECK(sit.HasData() == ((uint32)mi+1 < m.n), "... and continues"); if ((sit.HasData())&&((uint32)mi+1 < m.n)) CHECK(sit.GetKey().k == m.key[mi+1], "... with the next entry");}
   }
}

template<class T> static void Run()
{
   const uint32 n = ir2c_param_0(), op = ir2c_param_1(), itmode = ir2c_param_2(), initSize = ir2c_param_3(), c5 = ir2c_param_5();
   const bool exact = (Kind<T>::SORT != 2);
   for (uint32 i=0;i<MAXK;i++) {g_hash[i] = nondet_u8(); ASSUME(g_hash[i] < 64);}   // only hash % tableSize and hash equality matter to the table; a 6-bit hash keeps the division circuits small
   T t; Model m; m.n = 0;
   if (initSize) CHECK(t.EnsureSize(initSize, true).IsOK(), "EnsureSize(allowShrink) succeeds");
   for (uint32 i=0;i<MAXN;i++) if (i<n)
   {
      const uint32 k = SymKey(), v = SymVal(); ASSUME(MFind(m,k) < 0);
      CHECK(t.Put(Key(k), v).IsOK(), "Put succeeds"); MInsertAt(m, m.n, k, v);
   }
   if (Kind<T>::SORT == 1) MSort(m, false);
   if (Kind<T>::SORT == 2) MSort(m, true);

   // the live iterator
   Model m0 = m;                        // the order the iterator was started on
   const bool back = (itmode == 2);
   HashtableIterator<Key,uint32> it;    // default-constructed iterators refer to nothing
   uint32 a = 0;
   if (itmode)
   {
      it = HashtableIterator<Key,uint32>(t, back ? HTIT_FLAG_BACKWARDS : 0);
      a = nondet_u8(); ASSUME(a <= n);
      for (uint32 i=0;i<MAXN;i++) if (i<a) {CHECK(it.HasData(), "the iterator has data while entries remain"); it++;}
      CHECK(it.HasData() == (a < n), "the iterator ends after the last entry");
      if ((a < n)&&(exact)) CHECK(it.GetKey().k == m0.key[back ? (n-1-a) : a], "the iterator follows the table's order");
      if ((a < n)&&(!exact)) {const uint32 ck = it.GetKey().k; const int ci = MFind(m0, ck); ASSUME(ci >= 0); if ((uint32)ci != (back ? (n-1-a) : a)) MMove(m0, (uint32)ci, back ? (n-1-a) : a);}   // value-sorted: ties make the order ambiguous; adopt the table's
   }

   // the operation under test
   const uint32 k = SymKey(), k2 = SymKey(), v = SymVal(); uint32 pos = nondet_u8(); ASSUME(pos <= MAXN+1);
   const int ki = MFind(m,k), k2i = MFind(m,k2);
   T other; Model mo; mo.n = 0; bool swapped = false;
   switch(op)
   {
      case 0:  {CHECK(t.Put(Key(k), v).IsOK(), "Put succeeds"); if (ki >= 0) m.val[ki] = v; else MInsertAt(m, m.n, k, v);} break;
      case 1:  {uint32 rv = 99; const status_t r = t.Remove(Key(k), rv); CHECK(r.IsOK() == (ki >= 0), "Remove succeeds exactly for present keys"); if (ki >= 0) {CHECK(rv == m.val[ki], "Remove returns the removed value"); MRemoveAt(m, (uint32)ki);}} break;
      case 2:  {CHECK(t.MoveToFront(Key(k)).IsOK() == (ki >= 0), "MoveToFront status"); if (ki >= 0) MMove(m, (uint32)ki, 0);} break;
      case 3:  {CHECK(t.MoveToBack(Key(k)).IsOK() == (ki >= 0), "MoveToBack status"); if (ki >= 0) MMove(m, (uint32)ki, MAXN);} break;
      case 4:  {t.Clear(c5 != 0); m.n = 0;} break;
      case 5:  {const status_t r = t.MoveToBefore(Key(k), Key(k2)); const bool ok = (ki >= 0)&&(k2i >= 0)&&(k != k2); CHECK(r.IsOK() == ok, "MoveToBefore status"); if (ok) MMove(m, (uint32)ki, (uint32)((ki < k2i) ? (k2i-1) : k2i));} break;
      case 6:  {const status_t r = t.MoveToBehind(Key(k), Key(k2)); const bool ok = (ki >= 0)&&(k2i >= 0)&&(k != k2); CHECK(r.IsOK() == ok, "MoveToBehind status"); if (ok) MMove(m, (uint32)ki, (uint32)((ki < k2i) ? k2i : (k2i+1)));} break;
      case 7:  {CHECK(t.MoveToPosition(Key(k), pos).IsOK() == (ki >= 0), "MoveToPosition status"); if (ki >= 0) MMove(m, (uint32)ki, pos);} break;
      case 8:  {CHECK(t.PutAtFront(Key(k), v).IsOK(), "PutAtFront succeeds"); if (ki >= 0) {m.val[ki] = v; MMove(m, (uint32)ki, 0);} else MInsertAt(m, 0, k, v);} break;
      case 9:  {CHECK(t.PutAtBack(Key(k), v).IsOK(), "PutAtBack succeeds"); if (ki >= 0) {m.val[ki] = v; MMove(m, (uint32)ki, MAXN);} else MInsertAt(m, m.n, k, v);} break;
      case 10: {CHECK(t.PutBefore(Key(k), Key(k2), v).IsOK(), "PutBefore succeeds");      // as Put(); then, if the other key exists and differs, placed just before it
                if (ki >= 0) m.val[ki] = v; else MInsertAt(m, m.n, k, v);
                const int a1 = MFind(m,k), b1 = MFind(m,k2); if ((b1 >= 0)&&(k != k2)) MMove(m, (uint32)a1, (uint32)((a1 < b1) ? (b1-1) : b1));} break;
      case 11: {CHECK(t.PutBehind(Key(k), Key(k2), v).IsOK(), "PutBehind succeeds");
                if (ki >= 0) m.val[ki] = v; else MInsertAt(m, m.n, k, v);
                const int a1 = MFind(m,k), b1 = MFind(m,k2); if ((b1 >= 0)&&(k != k2)) MMove(m, (uint32)a1, (uint32)((a1 < b1) ? b1 : (b1+1)));} break;
      case 12: {CHECK(t.PutAtPosition(Key(k), pos, v).IsOK(), "PutAtPosition succeeds"); if (ki >= 0) m.val[ki] = v; else MInsertAt(m, m.n, k, v); MMove(m, (uint32)MFind(m,k), pos);} break;
      case 13: {Key rk; uint32 rv = 99; const status_t r = t.RemoveFirst(rk, rv); CHECK(r.IsOK() == (m.n > 0), "RemoveFirst succeeds exactly on a non-empty table"); if (m.n > 0) {if (exact) CHECK((rk.k == m.key[0])&&(rv == m.val[0]), "RemoveFirst returns the first pair"); const int ri = MFind(m, rk.k); CHECK(ri >= 0, "RemoveFirst returns a present key"); if (ri >= 0) {CHECK(rv == m.val[ri], "RemoveFirst value"); MRemoveAt(m, (uint32)ri);}}} break;
      case 14: {Key rk; uint32 rv = 99; const status_t r = t.RemoveLast(rk, rv);  CHECK(r.IsOK() == (m.n > 0), "RemoveLast succeeds exactly on a non-empty table");  if (m.n > 0) {if (exact) CHECK((rk.k == m.key[m.n-1])&&(rv == m.val[m.n-1]), "RemoveLast returns the last pair"); const int ri = MFind(m, rk.k); CHECK(ri >= 0, "RemoveLast returns a present key"); if (ri >= 0) {CHECK(rv == m.val[ri], "RemoveLast value"); MRemoveAt(m, (uint32)ri);}}} break;
      case 15: {t.SortByKey();   MSort(m, false);} break;
      case 16: {t.SortByValue(); MSort(m, true);} break;
      case 17: {CHECK(t.EnsureSize(c5).IsOK(), "EnsureSize succeeds"); CHECK(t.GetNumAllocatedItemSlots() >= c5, "EnsureSize allocates");} break;
      case 18: {CHECK(t.ShrinkToFit().IsOK(), "ShrinkToFit succeeds");} break;
      case 19: {T c(t); CheckAll(c, m, exact); CHECK(c.IsEqualTo(t, true), "a copy equals its source, order included"); CHECK(c == t, "operator== on a copy");                 // copy construction
                if (ki >= 0) {(void) c.Remove(Key(k)); CHECK(!(c == t), "operator== sees a removed key");} else {(void) c.Put(Key(k), v); CHECK(!(c == t), "operator== sees an added key");}} break;
      case 20: {CHECK(other.Put(Key(k), v).IsOK(), "Put"); mo.key[0]=k; mo.val[0]=v; mo.n=1; t.SwapContents(other); Model tmp = m; m = mo; mo = tmp; swapped = true;} break;   // swap with a one-entry table
      case 21: {uint32 * r = t.GetOrPut(Key(k), v); CHECK(r != NULL, "GetOrPut succeeds"); if (ki < 0) MInsertAt(m, m.n, k, v); if (r) CHECK(*r == m.val[MFind(m,k)], "GetOrPut returns the stored value");} break;
      case 22: {uint32 * r = t.GetAndMoveToFront(Key(k)); CHECK((r != NULL) == (ki >= 0), "GetAndMoveToFront finds exactly the present keys"); if (ki >= 0) {if (r) CHECK(*r == m.val[ki], "GetAndMoveToFront value"); MMove(m, (uint32)ki, 0);}} break;
      case 23: {uint32 * r = t.GetAndMoveToBack(Key(k));  CHECK((r != NULL) == (ki >= 0), "GetAndMoveToBack finds exactly the present keys");  if (ki >= 0) {if (r) CHECK(*r == m.val[ki], "GetAndMoveToBack value");  MMove(m, (uint32)ki, MAXN);}} break;
      case 24: {CHECK(other.Put(Key(k2), 3).IsOK(), "Put"); mo.key[0]=k2; mo.val[0]=3; mo.n=1;                                                                     // MoveToTable
                const status_t r = t.MoveToTable(Key(k), other); CHECK(r.IsOK() == (ki >= 0), "MoveToTable succeeds exactly for present keys");
                if (ki >= 0) {const int oi = MFind(mo,k); if (oi >= 0) mo.val[oi] = m.val[ki]; else MInsertAt(mo, mo.n, k, m.val[ki]); MRemoveAt(m, (uint32)ki);}
                if (Kind<T>::SORT == 1) MSort(mo, false);
                if (Kind<T>::SORT == 2) MSort(mo, true);
                CheckAll(other, mo, exact);} break;
      case 25: {const status_t r = t.PutOrRemove(Key(k), (c5 != 0) ? &v : NULL); if (c5) {CHECK(r.IsOK(), "PutOrRemove(value) succeeds"); if (ki >= 0) m.val[ki] = v; else MInsertAt(m, m.n, k, v);} else {CHECK(r.IsOK() == (ki >= 0), "PutOrRemove(NULL) status"); if (ki >= 0) MRemoveAt(m, (uint32)ki);}} break;
      case 26: {T * h = new T(t); HashtableIterator<Key,uint32> hit(*h, back ? HTIT_FLAG_BACKWARDS : 0); delete h;                                             // the table dies under an iterator
                CHECK(hit.HasData() == (n > 0), "an iterator whose table was destroyed keeps its current pair"); if ((n > 0)&&(exact)) CHECK(hit.GetKey().k == m.key[back ? (n-1) : 0], "... namely the pair it was at");
                hit++; CHECK(!hit.HasData(), "an iterator whose table was destroyed ends at its next step");} break;
      case 27: {T c; (void) c.Put(Key(k2), 1); c = t; CheckAll(c, m, exact);} break;                                                                         // assignment over a non-empty table
      case 28: CheckQueries(t, m, exact); break;
      default: break;
   }
   if (Kind<T>::SORT == 1) MSort(m, false);
   if (Kind<T>::SORT == 2) MSort(m, true);
   (void) k2i;

   // the rest of the live iterator's traversal
   if (itmode)
   {
      const Model & F = swapped ? mo : m;     // the entries the iterator walks over live in the other table after a swap
      // did the operation change the relative order of the entries that were present throughout?  (the value-sorted table is treated as reordered: ties make its order ambiguous)
      bool reordered = !exact; {int last = -1; for (uint32 i=0;i<MAXN;i++) if (i<m0.n) {const uint32 key = m0.key[back ? (m0.n-1-i) : i]; int fi = MFind(F, key); if (fi >= 0) {if (back) fi = (int)F.n-1-fi; if (fi < last) reordered = true; last = fi;}}}
      if (a < n)
      {
         const uint32 ck = m0.key[back ? (n-1-a) : a];
         CHECK(it.HasData(), "a live iterator keeps its current pair across the operation");
         if (it.HasData()) {CHECK(it.GetKey().k == ck, "a live iterator's current key is unchanged by the operation"); const int fi = MFind(F, ck); if (fi >= 0) CHECK(it.GetValue() == F.val[fi], "a live iterator shows its entry's current value");}
      }
      uint32 seen = 0, expectIdx = a+1;
      if (it.HasData()) it++;
      for (uint32 step=0; step<MAXN+2; step++)
      {
         if (it.HasData() == false) break;
         CHECK(step <= MAXN, "the traversal terminates");
         const uint32 yk = it.GetKey().k; const int fi = MFind(F, yk);
         CHECK(fi >= 0, "a live iterator never yields a removed entry");
         if (fi >= 0) {CHECK(it.GetValue() == F.val[fi], "a live iterator yields current values"); CHECK((seen&(1u<<fi)) == 0, "the rest of the traversal yields no entry twice"); seen |= (1u<<fi);}
         if ((reordered == false)&&(MFind(m0, yk) >= 0))
         {
            // not reordered: the entries that were there throughout come in the original order, none skipped, none repeated
            for (uint32 q=0;q<MAXN;q++) if ((expectIdx < n)&&(MFind(F, m0.key[back ? (n-1-expectIdx) : expectIdx]) < 0)) expectIdx++;
            CHECK(expectIdx < n, "the iterator does not go back to entries it already passed");
            if (expectIdx < n) CHECK(yk == m0.key[back ? (n-1-expectIdx) : expectIdx], "the iterator continues with the next entry that still exists");
            expectIdx++;
         }
         it++;
      }
      if (reordered == false) {for (uint32 q=0;q<MAXN;q++) if ((expectIdx < n)&&(MFind(F, m0.key[back ? (n-1-expectIdx) : expectIdx]) < 0)) expectIdx++; CHECK(expectIdx >= n, "the iterator skips nothing that was present throughout");}
   }
   CheckAll(t, m, exact);
   verif_observe(t.GetNumItems()); verif_observe(m.n ? m.key[0] : 99u);
}

extern "C" void harness_ht(void)
{
   switch(ir2c_param_4())
   {
      case 1:  Run<OrderedKeysHashtable<Key,uint32> >();   break;
      case 2:  Run<OrderedValuesHashtable<Key,uint32> >(); break;
      default: Run<Hashtable<Key,uint32> >();              break;
   }
   VERIF_REACHED();
}
