// C02 (C++ kernel): every public read primitive of DataUnflattener (support/DataUnflattener.h) on an exactly-sized N-byte heap buffer of SYMBOLIC bytes keeps the
// cursor inside the buffer, never reads outside it, and reports an error instead.  Shape: N (ir2c_param_0), the KINDS of three consecutive reads (params 1..3).
// Symbolic: every buffer byte, every count / seek argument.
#include "util/ByteBuffer.h"
#include "support/Point.h"
#include "support/Rect.h"
#include "vsym.h"
using namespace muscle;
static void Step(DataUnflattener & u, const uint8 * p, uint32 N, uint32 kind)
{
   switch(kind)
   {
      case 0: {const int8 v = u.ReadInt8(); verif_observe((uint8)v);} break;
      case 1: {const int16 v = u.ReadInt16(); verif_observe((uint16)v);} break;
      case 2: {const int32 v = u.ReadInt32(); verif_observe((uint32)v);} break;
      case 3: {const int64 v = u.ReadInt64(); verif_observe((uint64)v);} break;
      case 4: {Point pt; const status_t r = u.ReadFlat(pt); verif_observe(r.IsOK());} break;
      case 5: {Rect rc; const status_t r = u.ReadFlat(rc); verif_observe(r.IsOK());} break;
      case 6: {const char * s = u.ReadCString(); if (s) {uint32 len=0; while(s[len]) len++; CHECK((const uint8 *)s >= p && (const uint8 *)s+len < p+N, "a returned C string lies inside the buffer with its terminator"); verif_observe(len);}} break;
      case 7: {const status_t r = u.SeekRelative((int32)nondet_u32()); verif_observe(r.IsOK());} break;
      case 8: {uint16 v[4]; const uint32 n = nondet_u32(); ASSUME(n <= 4); const status_t r = u.ReadInt16s(v, n); if (r.IsOK()) for (uint32 i=0;i<n;i++) verif_observe(v[i]);} break;
      case 9: {uint8 v[8]; const uint32 n = nondet_u32(); ASSUME(n <= 8); const status_t r = u.ReadBytes(v, n); if (r.IsOK()) for (uint32 i=0;i<n;i++) verif_observe(v[i]);} break;
      case 10:{const status_t r = u.SeekTo(nondet_u32()); verif_observe(r.IsOK());} break;
      case 11:{const status_t r = u.SeekPastPaddingBytesToAlignTo(nondet_u32() % 9); verif_observe(r.IsOK());} break;
      case 12:{DataUnflattenerReadLimiter<DataUnflattener> lim(u, nondet_u32()); const int32 v = u.ReadInt32(); verif_observe((uint32)v);} break;
      default: break;
   }
   CHECK(u.GetNumBytesRead() <= N, "the read cursor stays inside the buffer");
   CHECK(u.GetCurrentReadPointer() >= p && u.GetCurrentReadPointer() <= p+N, "the read pointer stays inside the buffer");
   CHECK(u.GetNumBytesAvailable() == N - u.GetNumBytesRead() || u.GetMaxNumBytes() != N, "bytes available = bytes not yet read");
}
extern "C" void harness_unflat(void)
{
   const uint32 N = ir2c_param_0();
   uint8 * p = newnothrow_array(uint8, N ? N : 1); ASSUME(p != NULL);     // exactly-sized heap object: any over-read leaves it
   for (uint32 i=0; i<N; i++) p[i] = nondet_u8();
   DataUnflattener u(p, N);
   Step(u, p, N, ir2c_param_1()); Step(u, p, N, ir2c_param_2()); Step(u, p, N, ir2c_param_3());
   VERIF_REACHED();
}
