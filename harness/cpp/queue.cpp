// C16 -- Queue<T> as an ideal double-ended sequence: one operation from an ARBITRARY valid ring state (inductive step).
// Shape (ir2c_param): 0 = capacity c, 1 = item count n, 2 = item count of the second queue / array operand.
// Symbolic: head index, every slot (also those outside the window), every argument.
// Oracle: a plain array manipulated as Queue.h documents each operation.
#include "util/Queue.h"
#include "vsym.h"
using namespace muscle;

#ifndef ITEM_OWNED
typedef int32 Item;
static inline Item SymItem() {return (int32) nondet_u32();}
static inline uint64 ItemObs(const Item & i) {return (uint32) i;}
#else
// an owning item type: keeps a global live-count; a default-constructed item carries value 0
static int g_live = 0;
struct Item {
   Item() : v(0) {g_live++;}
   Item(const Item & r) : v(r.v) {g_live++;}
   ~Item() {g_live--;}
   Item & operator=(const Item & r) {v = r.v; return *this;}
   bool operator==(const Item & r) const {return v == r.v;}
   bool operator!=(const Item & r) const {return v != r.v;}
   bool operator<(const Item & r) const {return v < r.v;}
   bool operator>(const Item & r) const {return v > r.v;}
   int32 v;
};
static inline Item SymItem() {Item i; i.v = (int32) nondet_u32(); return i;}
static inline uint64 ItemObs(const Item & i) {return (uint32) i.v;}
#endif

#define MAXN 16
static inline uint32 Wrap(uint32 x, uint32 c) {return (x>=c)?(x-c):x;}
struct QState {Queue<Item> q; Item model[MAXN]; uint32 n;};

// arbitrary state satisfying the representation invariant
static void MakeStateN(QState & s, uint32 c, uint32 n)
{
   Queue<Item> & q = s.q;
   const uint32 sq = (uint32) ARRAYITEMS(q._smallQueue);
   ASSUME((c >= sq)&&(c < MAXN)&&(n <= c));
   uint32 h = nondet_u32(); ASSUME(h < c);
   if (c == sq) q._queue = q._smallQueue; else {q._queue = newnothrow_array(Item, c); ASSUME(q._queue != NULL);}
   q._queueSize = c; q._itemCount = n;
   if (n > 0) {q._headIndex = h; q._tailIndex = Wrap(h+n-1,c);} else {q._headIndex = nondet_u32(); q._tailIndex = nondet_u32(); ASSUME(q._headIndex < c); ASSUME(q._tailIndex < c);}
#ifndef ITEM_OWNED
   for (uint32 i=0; i<c; i++) q._queue[i] = SymItem();          // slots outside the window hold arbitrary stale values
   for (uint32 i=0; i<n; i++) s.model[i] = q._queue[Wrap(h+i,c)];
#else
   for (uint32 i=0; i<n; i++) {q._queue[Wrap(h+i,c)] = SymItem(); s.model[i] = q._queue[Wrap(h+i,c)];}   // owning types: slots outside the window are default items
#endif
   s.n = n;
}
static void MakeState(QState & s) {MakeStateN(s, ir2c_param_0(), ir2c_param_1());}

static void CheckState(const QState & s)
{
   const Queue<Item> & q = s.q;
   CHECK(q._itemCount == s.n, "item count equals the ideal sequence's length");
   CHECK(q._itemCount <= q._queueSize, "count <= capacity");
   CHECK((q._queue != NULL)||(q._queueSize==0), "array present");
   CHECK(q.GetNumItems() == s.n, "GetNumItems");
   if (s.n > 0) {CHECK(q._headIndex < q._queueSize, "head in range"); CHECK(q._tailIndex == Wrap(q._headIndex+s.n-1,q._queueSize), "tail consistent with head and count");}
   for (uint32 i=0; i<s.n; i++) {CHECK(q[i] == s.model[i], "content equals the ideal sequence"); verif_observe(ItemObs(q[i]));}
#ifdef ITEM_OWNED
   // never exposes stale items: every slot outside the window is a default item
   if (q._queue) for (uint32 i=0; i<q._queueSize; i++) {bool in = false; for (uint32 j=0; j<s.n; j++) if (Wrap(q._headIndex+j,q._queueSize) == i) in = true; if (!in) CHECK(q._queue[i].v == 0, "slot outside the window holds a default item");}
#endif
   verif_observe(s.n);
}
static void ModelInsert(QState & s, uint32 idx, const Item & v) {for (uint32 i=s.n; i>idx; i--) s.model[i]=s.model[i-1]; s.model[idx]=v; s.n++;}
static void ModelRemove(QState & s, uint32 idx) {for (uint32 i=idx+1;i<s.n;i++) s.model[i-1]=s.model[i]; s.n--;}

// start index / count arguments of the multi-operations are job constants (P4, P5): the number of items actually added sizes a reallocation, and
// anything symbolic execution cannot fold to a constant there becomes a symbolic allocation size (DESIGN 2.4).  The job table enumerates the
// interesting constants (0, 1, len-1, len, 2^31, 2^32-1 ...); the ring state, the contents and the insertion index stay symbolic.
static uint32 SymStart(uint32) {return ir2c_param_4();}
static uint32 SymCount(uint32) {return ir2c_param_5();}
#define H(name) extern "C" void harness_q_##name(void)
#define END() VERIF_REACHED()

H(addtail)    {QState s; MakeState(s); Item v=SymItem(); CHECK(s.q.AddTail(v).IsOK(), "AddTail succeeds"); ModelInsert(s, s.n, v); CheckState(s); END();}
H(addhead)    {QState s; MakeState(s); Item v=SymItem(); CHECK(s.q.AddHead(v).IsOK(), "AddHead succeeds"); ModelInsert(s, 0, v); CheckState(s); END();}
H(addtaildef) {QState s; MakeState(s); CHECK(s.q.AddTail().IsOK(), "AddTail() succeeds"); ModelInsert(s, s.n, Item()); CheckState(s); END();}
H(removehead) {QState s; MakeState(s); Item r; bool ok = s.q.RemoveHead(r).IsOK(); CHECK(ok == (s.n>0), "RemoveHead status"); if (ok) {CHECK(r==s.model[0], "RemoveHead value"); ModelRemove(s,0);} CheckState(s); END();}
H(removetail) {QState s; MakeState(s); Item r; bool ok = s.q.RemoveTail(r).IsOK(); CHECK(ok == (s.n>0), "RemoveTail status"); if (ok) {CHECK(r==s.model[s.n-1], "RemoveTail value"); ModelRemove(s,s.n-1);} CheckState(s); END();}
H(removeheaddef) {QState s; MakeState(s); Item r = s.q.RemoveHeadWithDefault(); if (s.n>0) {CHECK(r==s.model[0], "value"); ModelRemove(s,0);} else CHECK(r==Item(), "default"); CheckState(s); END();}
H(removeheadmulti) {QState s; MakeState(s); uint32 k = nondet_u32(); uint32 r = s.q.RemoveHeadMulti(k); uint32 e = (k<s.n)?k:s.n; CHECK(r==e, "RemoveHeadMulti count"); for (uint32 i=0;i<e;i++) ModelRemove(s,0); CheckState(s); END();}
H(removetailmulti) {QState s; MakeState(s); uint32 k = nondet_u32(); uint32 r = s.q.RemoveTailMulti(k); uint32 e = (k<s.n)?k:s.n; CHECK(r==e, "RemoveTailMulti count"); s.n -= e; CheckState(s); END();}
H(insert)     {QState s; MakeState(s); Item v=SymItem(); uint32 idx=(ir2c_param_4()==99)?nondet_u32():ir2c_param_4(); CHECK(s.q.InsertItemAt(idx, v).IsOK(), "InsertItemAt succeeds"); if (idx>s.n) idx=s.n; ModelInsert(s, idx, v); CheckState(s); END();}
H(removeat)   {QState s; MakeState(s); uint32 idx=nondet_u32(); Item r; bool ok = s.q.RemoveItemAt(idx, r).IsOK(); CHECK(ok == (idx<s.n), "RemoveItemAt status"); if (ok) {CHECK(r==s.model[idx],"RemoveItemAt value"); ModelRemove(s,idx);} CheckState(s); END();}
H(replaceat)  {QState s; MakeState(s); uint32 idx=nondet_u32(); Item v=SymItem(); bool ok = s.q.ReplaceItemAt(idx, v).IsOK(); CHECK(ok == (idx<s.n), "ReplaceItemAt status"); if (ok) s.model[idx]=v; CheckState(s); END();}
H(getters)    {QState s; MakeState(s); uint32 idx=nondet_u32(); Item r; bool ok = s.q.GetItemAt(idx, r).IsOK(); CHECK(ok == (idx<s.n), "GetItemAt status"); if (ok) CHECK(r==s.model[idx], "GetItemAt value");
               CHECK((s.q.GetItemAt(idx)!=NULL) == (idx<s.n), "GetItemAt pointer"); CHECK(s.q.GetWithDefault(idx) == ((idx<s.n)?s.model[idx]:Item()), "GetWithDefault");
               CHECK(s.q.HeadWithDefault() == ((s.n>0)?s.model[0]:Item()), "HeadWithDefault"); CHECK(s.q.TailWithDefault() == ((s.n>0)?s.model[s.n-1]:Item()), "TailWithDefault");
               if (s.n>0) {CHECK(s.q.Head()==s.model[0], "Head"); CHECK(s.q.Tail()==s.model[s.n-1], "Tail");}
               CHECK(s.q.IsEmpty()==(s.n==0), "IsEmpty"); CHECK(s.q.IsIndexValid(idx)==(idx<s.n), "IsIndexValid"); CheckState(s); END();}
H(swap)       {QState s; MakeState(s); ASSUME(s.n > 0); uint32 a=nondet_u32(), b=nondet_u32(); ASSUME((a<s.n)&&(b<s.n)); s.q.Swap(a,b); Item t=s.model[a]; s.model[a]=s.model[b]; s.model[b]=t; CheckState(s); END();}
H(reverse)    {QState s; MakeState(s); uint32 from=nondet_u32(), to=nondet_u32(); s.q.ReverseItemOrdering(from,to); if (to>s.n) to=s.n; if (to>0) {to--; while(from<to) {Item t=s.model[from]; s.model[from]=s.model[to]; s.model[to]=t; from++; to--;}} CheckState(s); END();}
H(ensuresize) {QState s; MakeState(s); const uint32 want=ir2c_param_2(); const bool setNum = (ir2c_param_4()&1)!=0; const uint32 extra = ir2c_param_3(); const bool allowShrink=(ir2c_param_4()&2)!=0;
               ASSUME(want+extra < MAXN);
               CHECK(s.q.EnsureSize(want, setNum, extra, allowShrink).IsOK(), "EnsureSize succeeds");
               CHECK(s.q.GetNumAllocatedItemSlots() >= want, "capacity reaches the request");
               if (setNum) {for (uint32 i=s.n; i<want; i++) s.model[i]=Item(); s.n=want;}   // setNumItems: grow with default items or drop items from the tail
               CheckState(s); END();}
H(ensuresize_shrinkbelow) {QState s; MakeState(s); const uint32 want=ir2c_param_2(); ASSUME(want < s.n);
               status_t r = s.q.EnsureSize(want, false, 0, true);   // asks for fewer slots than there are items, without permission to drop items
               (void) r; CHECK(s.q.GetNumAllocatedItemSlots() >= s.n, "capacity still holds every item"); CheckState(s); END();}
H(ensurecanadd) {QState s; MakeState(s); uint32 k=nondet_u32()%4; CHECK(s.q.EnsureCanAdd(k).IsOK(), "EnsureCanAdd succeeds"); CHECK(s.q.GetNumAllocatedItemSlots() >= s.n+k, "room for k more"); CheckState(s); END();}
H(shrink)     {QState s; MakeState(s); CHECK(s.q.ShrinkToFit().IsOK(), "ShrinkToFit succeeds"); CheckState(s); END();}
H(normalize)  {QState s; MakeState(s); s.q.Normalize(); if (s.n>0) CHECK(s.q._headIndex <= s.q._tailIndex, "normalized: items are contiguous"); CheckState(s); END();}
H(clear)      {QState s; MakeState(s); bool rel=(nondet_u8()&1)!=0; s.q.Clear(rel); s.n=0; CheckState(s); END();}
#ifndef ITEM_OWNED
H(fastclear)  {QState s; MakeState(s); s.q.FastClear(); s.n=0; CheckState(s); END();}
#endif
H(indexof)    {QState s; MakeState(s); Item v=SymItem(); int32 r = s.q.IndexOf(v); int32 e=-1; for (uint32 i=0;i<s.n;i++) if (s.model[i]==v) {e=(int32)i; break;} CHECK(r==e, "IndexOf");
               int32 r2 = s.q.LastIndexOf(v); int32 e2=-1; for (uint32 i=0;i<s.n;i++) if (s.model[i]==v) e2=(int32)i; CHECK(r2==e2, "LastIndexOf"); CHECK(s.q.Contains(v)==(e>=0), "Contains"); CheckState(s); END();}
H(removefirst) {QState s; MakeState(s); Item v=SymItem(); bool ok = s.q.RemoveFirstInstanceOf(v).IsOK(); int32 e=-1; for (uint32 i=0;i<s.n;i++) if (s.model[i]==v) {e=(int32)i; break;} CHECK(ok==(e>=0), "RemoveFirstInstanceOf status"); if (e>=0) ModelRemove(s,e); CheckState(s); END();}
H(removelast) {QState s; MakeState(s); Item v=SymItem(); bool ok = s.q.RemoveLastInstanceOf(v).IsOK(); int32 e=-1; for (uint32 i=0;i<s.n;i++) if (s.model[i]==v) e=(int32)i; CHECK(ok==(e>=0), "RemoveLastInstanceOf status"); if (e>=0) ModelRemove(s,e); CheckState(s); END();}
H(removeall)  {QState s; MakeState(s); Item v=SymItem(); uint32 r = s.q.RemoveAllInstancesOf(v); uint32 e=0, w=0; for (uint32 i=0;i<s.n;i++) {if (s.model[i]==v) e++; else s.model[w++]=s.model[i];} s.n=w; CHECK(r==e, "RemoveAllInstancesOf count"); CheckState(s); END();}
H(sort)       {QState s; MakeState(s); s.q.Sort(); for (uint32 i=1;i<s.n;i++) CHECK(!(s.q[i] < s.q[i-1]), "sorted ascending");
               // same multiset: every model item occurs as often in the queue as in the model
               for (uint32 i=0;i<s.n;i++) {uint32 a=0,b=0; for (uint32 j=0;j<s.n;j++) {if (s.model[j]==s.model[i]) a++; if (s.q[j]==s.model[i]) b++;} CHECK(a==b, "Sort permutes");}
               CHECK(s.q.GetNumItems()==s.n, "Sort keeps the count"); END();}
H(insertsorted) {QState s; MakeState(s); for (uint32 i=1;i<s.n;i++) ASSUME(!(s.model[i] < s.model[i-1])); Item v=SymItem(); int32 r = s.q.InsertItemAtSortedPosition(v); CHECK(r>=0, "InsertItemAtSortedPosition succeeds");
               CHECK((uint32)r<=s.n, "position in range"); ModelInsert(s,(uint32)r,v); for (uint32 i=1;i<s.n;i++) CHECK(!(s.model[i] < s.model[i-1]), "still sorted"); CheckState(s); END();}
H(copy)       {QState s; MakeState(s); Queue<Item> c(s.q); CHECK(c==s.q, "copy equals source"); CHECK(c.GetNumItems()==s.n, "copy count"); for (uint32 i=0;i<s.n;i++) CHECK(c[i]==s.model[i], "copy content"); CheckState(s); END();}
H(assign)     {QState s; MakeState(s); QState t; MakeStateN(t, ir2c_param_3(), ir2c_param_2()); s.q = t.q; for (uint32 i=0;i<t.n;i++) s.model[i]=t.model[i]; s.n=t.n; CheckState(s); CheckState(t); END();}
H(swapcontents) {QState s; MakeState(s); QState t; MakeStateN(t, ir2c_param_3(), ir2c_param_2()); s.q.SwapContents(t.q);
               Item tmp[MAXN]; for (uint32 i=0;i<s.n;i++) tmp[i]=s.model[i]; uint32 sn=s.n; for (uint32 i=0;i<t.n;i++) s.model[i]=t.model[i]; s.n=t.n; for (uint32 i=0;i<sn;i++) t.model[i]=tmp[i]; t.n=sn; CheckState(s); CheckState(t); END();}
H(addtailmulti_q) {QState s; MakeState(s); QState t; MakeStateN(t, ir2c_param_3(), ir2c_param_2()); uint32 st=SymStart(t.n), k=SymCount((st<t.n)?(t.n-st):0); CHECK(s.q.AddTailMulti(t.q, st, k).IsOK(), "AddTailMulti succeeds");
               uint32 av=(st<t.n)?(t.n-st):0; if (k>av) k=av; for (uint32 i=0;i<k;i++) ModelInsert(s,s.n,t.model[st+i]); CheckState(s); CheckState(t); END();}
H(addheadmulti_q) {QState s; MakeState(s); QState t; MakeStateN(t, ir2c_param_3(), ir2c_param_2()); uint32 st=SymStart(t.n), k=SymCount((st<t.n)?(t.n-st):0); CHECK(s.q.AddHeadMulti(t.q, st, k).IsOK(), "AddHeadMulti succeeds");
               uint32 av=(st<t.n)?(t.n-st):0; if (k>av) k=av; for (uint32 i=0;i<k;i++) ModelInsert(s,i,t.model[st+i]); CheckState(s); CheckState(t); END();}
H(insertitems_q) {QState s; MakeState(s); QState t; MakeStateN(t, ir2c_param_3(), ir2c_param_2()); uint32 idx=nondet_u32(), st=SymStart(t.n), k=SymCount((st<t.n)?(t.n-st):0); CHECK(s.q.InsertItemsAt(idx, t.q, st, k).IsOK(), "InsertItemsAt succeeds");
               if (idx>s.n) idx=s.n; uint32 av=(st<t.n)?(t.n-st):0; if (k>av) k=av; for (uint32 i=0;i<k;i++) ModelInsert(s,idx+i,t.model[st+i]); CheckState(s); CheckState(t); END();}
H(addtailmulti_a) {QState s; MakeState(s); Item arr[3]; uint32 k=ir2c_param_2(); ASSUME(k<=3); for (uint32 i=0;i<k;i++) arr[i]=SymItem(); CHECK(s.q.AddTailMulti(arr,k).IsOK(), "AddTailMulti(array) succeeds"); for (uint32 i=0;i<k;i++) ModelInsert(s,s.n,arr[i]); CheckState(s); END();}
H(addheadmulti_a) {QState s; MakeState(s); Item arr[3]; uint32 k=ir2c_param_2(); ASSUME(k<=3); for (uint32 i=0;i<k;i++) arr[i]=SymItem(); CHECK(s.q.AddHeadMulti(arr,k).IsOK(), "AddHeadMulti(array) succeeds"); for (uint32 i=0;i<k;i++) ModelInsert(s,i,arr[i]); CheckState(s); END();}
H(insertitems_a) {QState s; MakeState(s); Item arr[3]; uint32 k=ir2c_param_2(); ASSUME(k<=3); for (uint32 i=0;i<k;i++) arr[i]=SymItem(); uint32 idx=nondet_u32(); CHECK(s.q.InsertItemsAt(idx,arr,k).IsOK(), "InsertItemsAt(array) succeeds"); if (idx>s.n) idx=s.n; for (uint32 i=0;i<k;i++) ModelInsert(s,idx+i,arr[i]); CheckState(s); END();}
// the aliasing clause: the queue itself as the source of a multi-add
H(addtailmulti_self) {QState s; MakeState(s); uint32 n0=s.n; uint32 st=SymStart(n0), k=SymCount((st<n0)?(n0-st):0); CHECK(s.q.AddTailMulti(s.q, st, k).IsOK(), "AddTailMulti(self) succeeds"); uint32 av=(st<n0)?(n0-st):0; if (k>av) k=av; for (uint32 i=0;i<k;i++) ModelInsert(s,s.n,s.model[st+i]); CheckState(s); END();}
H(addheadmulti_self) {QState s; MakeState(s); uint32 n0=s.n; uint32 st=SymStart(n0), k=SymCount((st<n0)?(n0-st):0); Item src[MAXN]; for (uint32 i=0;i<n0;i++) src[i]=s.model[i]; CHECK(s.q.AddHeadMulti(s.q, st, k).IsOK(), "AddHeadMulti(self) succeeds"); uint32 av=(st<n0)?(n0-st):0; if (k>av) k=av; for (uint32 i=0;i<k;i++) ModelInsert(s,i,src[st+i]); CheckState(s); END();}
H(insertitems_self) {QState s; MakeState(s); uint32 n0=s.n; uint32 idx=nondet_u32(), st=SymStart(n0), k=SymCount((st<n0)?(n0-st):0); Item src[MAXN]; for (uint32 i=0;i<n0;i++) src[i]=s.model[i]; CHECK(s.q.InsertItemsAt(idx, s.q, st, k).IsOK(), "InsertItemsAt(self) succeeds"); if (idx>n0) idx=n0; uint32 av=(st<n0)?(n0-st):0; if (k>av) k=av; for (uint32 i=0;i<k;i++) ModelInsert(s,idx+i,src[st+i]); CheckState(s); END();}
H(compare)    {QState s; MakeState(s); QState t; MakeStateN(t, ir2c_param_3(), ir2c_param_2()); bool eq = (s.n==t.n); for (uint32 i=0;(i<s.n)&&(i<t.n);i++) if (!(s.model[i]==t.model[i])) eq=false; CHECK((s.q==t.q)==eq, "operator==");
               CHECK((s.q!=t.q)==!eq, "operator!="); bool sw = (t.n<=s.n); for (uint32 i=0;(i<t.n)&&sw;i++) if (!(s.model[i]==t.model[i])) sw=false; CHECK(s.q.StartsWith(t.q)==sw, "StartsWith");
               bool ew = (t.n<=s.n); for (uint32 i=0;(i<t.n)&&ew;i++) if (!(s.model[s.n-t.n+i]==t.model[i])) ew=false; CHECK(s.q.EndsWith(t.q)==ew, "EndsWith"); CheckState(s); CheckState(t); END();}
H(arraypointer) {QState s; MakeState(s); uint32 l0=0,l1=0; const Item * a0 = s.q.GetArrayPointer(0,l0); const Item * a1 = s.q.GetArrayPointer(1,l1); uint32 tot=(a0?l0:0)+(a1?l1:0); CHECK(tot==s.n, "the two array segments cover all items");
               uint32 k=0; if (a0) for (uint32 i=0;i<l0;i++) CHECK(a0[i]==s.model[k++], "first segment content"); if (a1) for (uint32 i=0;i<l1;i++) CHECK(a1[i]==s.model[k++], "second segment content"); CheckState(s); END();}
