// C14 -- Query filters evaluate as documented, survive archiving, tolerate bad archives.
// The real regex/QueryFilter.cpp (+ the Message class it reads) is executed symbolically.  A small Message is built through the public API with symbolic
// what-code and field values; a filter of the kind under test is built with symbolic operator, operand, index, mask and default; its Matches() result is
// compared with a reference evaluator written from the documentation in QueryFilter.h.  Then the filter is archived (SaveToArchive), restored through the
// factory (MuscleQueryFilterFactory::CreateQueryFilter(archive)), and the restored filter must give the same verdict and compare equal.
// Shape (ir2c_param): 0 = filter kind, 1 = number of items in field "f", 2 = 0 direct only / 1 also through the archive, 3 = type of field "f" (0 matching the
// filter, 1 another type), 4 = number of children (combinators) / hostile-archive variant, 5 = (archived jobs) the conditionally-archived filter parameters (index, operator, mask operator, use-default, threshold), which are job constants there.
#include "regex/QueryFilter.h"
#include "vsym.h"
using namespace muscle;

enum {K_WHAT=0, K_EXISTS, K_INT8, K_INT16, K_INT32, K_INT64, K_BOOL, K_MIN, K_MAX, K_AND, K_OR, K_NAND, K_NOR, K_XOR, K_MESSAGE, K_BADARCHIVE, K_FLOAT, K_DOUBLE};

static Message * G;      // the Message under test (a local of the harness entry: ir2c does not run global constructors)
#define g_msg (*G)
static uint32 N;                 // items in field "f"

// Archived jobs: SaveToArchive omits fields that hold their default value (CAddInt32 etc.), so a symbolic operator/index/threshold makes the archive's field SET
// symbolic, and every later virtual call on the archive's arrays becomes a case split over all classes (an assumption does not prune symbolic execution).
// In archived jobs the conditionally-archived parameters are therefore job constants (decoded from P5); operands, masks, defaults and all Message content stay symbolic.
static bool Arch() {return ir2c_param_2() != 0;}
static uint32 P5(uint32 shift, uint32 mask) {return (ir2c_param_5()>>shift)&mask;}
static const uint32 KID_LO[3] = {100, 200, 250}, KID_HI[3] = {300, 400, 260};

template<typename T> static bool RefCompare(uint8 op, T a, T b)
{
   switch(op) {case 0: return a==b; case 1: return a<b; case 2: return a>b; case 3: return a<=b; case 4: return a>=b; case 5: return a!=b; default: return false;}
}
template<typename T> static T RefMask(uint8 mop, T v, T m)
{
   switch(mop) {case 1: return (T)(v&m); case 2: return (T)(v|m); case 3: return (T)(v^m); case 4: return (T)~(v&m); case 5: return (T)~(v|m); case 6: return (T)~(v^m); default: return v;}
}
template<> bool RefMask<bool>(uint8 mop, bool v, bool m)
{
   switch(mop) {case 1: return v&m; case 2: return v|m; case 3: return v^m; case 4: return !(v&m); case 5: return !(v|m); case 6: return !(v^m); default: return v;}
}

static void CheckUnmodified(uint32 what, uint32 typeCode)
{
   CHECK(g_msg.what == what, "evaluation does not modify the Message's what-code");
   CHECK(g_msg.GetNumNames() == ((N > 0) ? 1u : 0u), "evaluation does not add or remove fields");
   if (N > 0) {uint32 tc = 0, cnt = 0; CHECK(g_msg.GetInfo("f", &tc, &cnt).IsOK(), "field still there"); CHECK((tc == typeCode)&&(cnt == N), "evaluation does not change the field's type or item count");}
}

static bool g_skipEq = false;
// archive round trip through the factory: same verdict, equal filter
static void CheckArchived(const QueryFilter & f, bool expected)
{
   if (ir2c_param_2() == 0) return;
   Message & ar = *(new Message);     // never destroyed: releasing a populated Message's arrays before the end-of-harness witness costs more symbolic execution than the check itself (measured: > 200 s vs 17 s)
   CHECK(f.SaveToArchive(ar).IsOK(), "SaveToArchive succeeds");
   CHECK(ar.what == f.TypeCode(), "the archive's what-code selects the filter class");
   MuscleQueryFilterFactory fac;
   QueryFilterRef & g = *(new QueryFilterRef); g = static_cast<const QueryFilterFactory &>(fac).CreateQueryFilter(ar);
   CHECK(g() != NULL, "a filter is restored from its own archive");
   if (g())
   {
      DummyConstMessageRef r(g_msg);
      CHECK(g()->Matches(r, NULL) == expected, "a restored filter gives the same verdict");
      CHECK(g()->TypeCode() == f.TypeCode(), "a restored filter has the same class");
      if (!g_skipEq) CHECK(g()->IsEqualTo(f), "a restored filter equals the original");
   }
}

template<typename T> static T SymBits() {const uint64 b = nondet_u64(); T r; memcpy(&r, &b, sizeof(T)); return r;}     // every bit pattern of T (NaN, -0, inf for floating point)
// floating point has no mask operations: QueryFilter.h's specialisations return T() whenever a mask operator is set
template<> float  RefMask<float >(uint8, float,  float)  {return 0.0f;}
template<> double RefMask<double>(uint8, double, double) {return 0.0;}

template<typename T, class F, uint32 TC> static void RunNumeric(bool otherType)
{
   // field "f": N items of T (or of another type when otherType)
   T vals[3];
   for (uint32 i=0;i<3;i++) vals[i] = SymBits<T>();
   for (uint32 i=0;i<N;i++)
   {
      if (otherType) {if (TC == B_INT16_TYPE) (void) g_msg.AddInt32("f", (int32) vals[i]); else (void) g_msg.AddInt16("f", (int16) vals[i]);}
      else CHECK(g_msg.AddData("f", TC, &vals[i], sizeof(T)).IsOK(), "AddData");
   }
   const uint32 fieldType = otherType ? ((TC == B_INT16_TYPE) ? (uint32)B_INT32_TYPE : (uint32)B_INT16_TYPE) : TC;
   const uint32 what = g_msg.what;
   uint8 op = nondet_u8(), mop = nondet_u8(); uint32 idx = nondet_u8()&3; const T operand = SymBits<T>(), mask = SymBits<T>(), def = SymBits<T>(); bool useDef = (nondet_u8()&1) != 0;
   if (Arch()) {idx = P5(0,3); op = (uint8) P5(2,7); mop = (uint8) P5(5,7); useDef = (P5(8,1) != 0);}
   F f("f", op, operand, idx);
   if (useDef) f.SetAssumedDefault(def);
   f.SetMask(mop, mask);
   DummyConstMessageRef r(g_msg);
   const bool got = f.Matches(r, NULL);
   // reference: the indexed item if the field exists with the filter's type, else the assumed default if any, else no match
   bool expected;
   const bool present = (!otherType)&&(idx < N);
   if ((!present)&&(!useDef)) expected = false;
   else
   {
      const T v = present ? vals[idx] : def;
      // integer types: mask operators 1..6, any other value leaves the item as it is; floating point: QueryFilter.h's dummy specialisations yield T() for EVERY non-zero mask operator
      const bool fp = (TC == B_FLOAT_TYPE)||(TC == B_DOUBLE_TYPE);
      expected = RefCompare<T>(op, fp ? ((mop != 0) ? T() : v) : ((mop >= 1 && mop <= 6) ? RefMask<T>(mop, v, mask) : v), operand);
   }
   CHECK(got == expected, "numeric filter: typed comparison of the indexed item with the operand, missing data handled by the default rule");
   CHECK(r() == &g_msg, "the filter does not retarget the Message reference");
   CheckUnmodified(what, fieldType);
   if (N > 0) {const void * p = NULL; uint32 nb = 0; if ((!otherType)&&(g_msg.FindData("f", TC, 0, &p, &nb).IsOK())) CHECK((nb == sizeof(T))&&(memcmp(p, &vals[0], sizeof(T)) == 0), "evaluation does not change the field's values");}
   g_skipEq = !((operand == operand)&&(mask == mask)&&(def == def));     // a NaN parameter: IsEqualTo compares with ==, such a filter does not equal itself
   CheckArchived(f, expected);
   g_skipEq = false;
   verif_observe(got ? 1 : 0);
}

static void RunCombinator(uint32 kind)
{
   const uint32 numKids = ir2c_param_4();
   const uint32 what = g_msg.what;
   WhatCodeQueryFilter w[3]; bool km[3]; uint32 cnt = 0;
   for (uint32 i=0;i<3;i++) {uint32 lo = nondet_u32(), hi = nondet_u32(); if (Arch()) {lo = KID_LO[i]; hi = KID_HI[i];} w[i] = WhatCodeQueryFilter(lo, hi); km[i] = (what >= lo)&&(what <= hi); if ((i < numKids)&&(km[i])) cnt++;}
   uint32 thr = nondet_u32(); if (Arch()) thr = (P5(0,3) == 3) ? MUSCLE_NO_LIMIT : P5(0,3);
   MinimumThresholdQueryFilter fmin(thr); MaximumThresholdQueryFilter fmax(thr); AndQueryFilter fand; OrQueryFilter forr; NandQueryFilter fnand; NorQueryFilter fnor; XorQueryFilter fxor;
   MultiQueryFilter * f = NULL; bool expected = false;
   const uint32 clip = (numKids > 0) ? ((thr < numKids-1) ? thr : (numKids-1)) : 0;
   switch(kind)
   {
      case K_MIN:  f = &fmin;  expected = (cnt > clip);  break;    // "matches iff more than n children match; n above numKids-1 is treated as numKids-1"
      case K_MAX:  f = &fmax;  expected = (cnt <= clip); break;    // "matches iff no more than n children match; n >= numKids is treated as numKids-1"
      case K_AND:  f = &fand;  expected = (cnt == numKids); break;
      case K_OR:   f = &forr;  expected = (cnt > 0); break;
      case K_NAND: f = &fnand; expected = (cnt < numKids); break;
      case K_NOR:  f = &fnor;  expected = (cnt == 0); break;
      default:     f = &fxor;  expected = ((cnt&1) != 0); break;
   }
   // without children the documentation of each class fixes the verdict: And/Or (minimum-threshold) "will always return true", Nand/Nor (maximum-threshold) and Xor "will always return false"
   if (numKids == 0) expected = ((kind == K_MIN)||(kind == K_AND)||(kind == K_OR));
   for (uint32 i=0;i<numKids;i++) CHECK(f->GetChildren().AddTail(DummyConstQueryFilterRef(w[i])).IsOK(), "AddTail");
   DummyConstMessageRef r(g_msg);
   const bool got = f->Matches(r, NULL);
   CHECK(got == expected, "combinator: truth table over its children's verdicts");
   CheckUnmodified(what, 0);
   CheckArchived(*f, expected);
   verif_observe(got ? 1 : 0);
}

extern "C" void harness_qf(void)
{
   Message theMsg; G = &theMsg;
   const uint32 kind = ir2c_param_0(); N = ir2c_param_1(); const bool otherType = (ir2c_param_3() != 0);
   g_msg.what = nondet_u32();
   const uint32 what = g_msg.what;
   switch(kind)
   {
      case K_WHAT:
      {
         uint32 lo = nondet_u32(), hi = nondet_u32(); if (Arch()) {lo = P5(0,1) ? 7 : 0; hi = P5(1,1) ? (lo+2) : lo;}
         WhatCodeQueryFilter f(lo, hi);
         DummyConstMessageRef r(g_msg);
         const bool expected = (what >= lo)&&(what <= hi);
         CHECK(f.Matches(r, NULL) == expected, "what-code filter: what in [min,max]");
         WhatCodeQueryFilter f1(lo); CHECK(f1.Matches(r, NULL) == (what == lo), "what-code filter with one code: equality");
         CheckUnmodified(what, 0);
         CheckArchived(f, expected);
      }
      break;
      case K_EXISTS:
      {
         for (uint32 i=0;i<N;i++) (void) g_msg.AddInt32("f", (int32) nondet_u32());
         uint32 idx = nondet_u8()&3; const uint8 sel = (uint8) P5(2,3); if (Arch()) idx = P5(0,3);     // the type selector is a job constant: a symbolic type code makes the field lookup return a maybe-NULL pointer
         const uint32 tc = (sel == 0) ? (uint32)B_ANY_TYPE : (sel == 1) ? (uint32)B_INT32_TYPE : (sel == 2) ? (uint32)B_INT16_TYPE : 12345u;
         ValueExistsQueryFilter f("f", tc, idx);
         DummyConstMessageRef r(g_msg);
         const bool expected = (idx < N)&&((tc == B_ANY_TYPE)||(tc == B_INT32_TYPE));
         CHECK(f.Matches(r, NULL) == expected, "value-exists filter: the indexed item exists with the given type (or any type)");
         ValueExistsQueryFilter fg("g", B_ANY_TYPE, 0); CHECK(fg.Matches(r, NULL) == false, "value-exists filter on an absent field");
         CheckUnmodified(what, B_INT32_TYPE);
         CheckArchived(f, expected);
      }
      break;
      case K_INT8:  RunNumeric<int8,  Int8QueryFilter,  B_INT8_TYPE >(otherType); break;
      case K_INT16: RunNumeric<int16, Int16QueryFilter, B_INT16_TYPE>(otherType); break;
      case K_INT32: RunNumeric<int32, Int32QueryFilter, B_INT32_TYPE>(otherType); break;
      case K_INT64: RunNumeric<int64, Int64QueryFilter, B_INT64_TYPE>(otherType); break;
      case K_FLOAT: RunNumeric<float,  FloatQueryFilter,  B_FLOAT_TYPE >(otherType); break;
      case K_DOUBLE: RunNumeric<double, DoubleQueryFilter, B_DOUBLE_TYPE>(otherType); break;
      case K_BOOL:
      {
         bool vals[3]; for (uint32 i=0;i<3;i++) vals[i] = (nondet_u8()&1) != 0;
         for (uint32 i=0;i<N;i++) (void) g_msg.AddBool("f", vals[i]);
         uint8 op = nondet_u8(), mop = nondet_u8(); uint32 idx = nondet_u8()&3; const bool operand = (nondet_u8()&1) != 0, mask = (nondet_u8()&1) != 0, def = (nondet_u8()&1) != 0; bool useDef = (nondet_u8()&1) != 0;
         if (Arch()) {idx = P5(0,3); op = (uint8) P5(2,7); mop = (uint8) P5(5,7); useDef = (P5(8,1) != 0);}
         BoolQueryFilter f("f", op, operand, idx); if (useDef) f.SetAssumedDefault(def); f.SetMask(mop, mask);
         DummyConstMessageRef r(g_msg);
         const bool present = (idx < N); bool expected = false;
         if ((present)||(useDef)) {const bool v = present ? vals[idx] : def; expected = RefCompare<bool>(op, (mop >= 1 && mop <= 6) ? RefMask<bool>(mop, v, mask) : v, operand);}
         CHECK(f.Matches(r, NULL) == expected, "bool filter");
         CheckUnmodified(what, B_BOOL_TYPE);
         CheckArchived(f, expected);
      }
      break;
      case K_MIN: case K_MAX: case K_AND: case K_OR: case K_NAND: case K_NOR: case K_XOR: RunCombinator(kind); break;
      case K_MESSAGE:
      {
         // field "f": N sub-Messages with symbolic what-codes; the child filter is a what-code filter; optional default sub-Message
         Message subs[3]; for (uint32 i=0;i<3;i++) subs[i].what = nondet_u32();
         for (uint32 i=0;i<N;i++) CHECK(g_msg.AddMessage("f", DummyMessageRef(subs[i])).IsOK(), "AddMessage");
         uint32 lo = nondet_u32(), hi = nondet_u32(); uint32 idx = nondet_u8()&3; const uint8 mode = ir2c_param_4();   // 0: child filter, no default; 1: no child filter; 2: child filter + default Message
         idx = P5(0,3); if (Arch()) {lo = KID_LO[0]; hi = KID_HI[0];}     // the index is a job constant (which sub-Message object is handed on must not be symbolic)
         WhatCodeQueryFilter w(lo, hi); Message defMsg; defMsg.what = nondet_u32();
         MessageQueryFilter & f = *(new MessageQueryFilter); f.SetFieldName("f"); f.SetIndex(idx);
         if (mode == 0) f.SetChildFilter(DummyConstQueryFilterRef(w), ConstMessageRef());
         if (mode == 2) f.SetChildFilter(DummyConstQueryFilterRef(w), DummyConstMessageRef(defMsg));
         DummyConstMessageRef r(g_msg);
         bool expected;
         if (idx < N) expected = (mode == 1) ? true : ((subs[idx].what >= lo)&&(subs[idx].what <= hi));
         else if (mode == 2) expected = (defMsg.what >= lo)&&(defMsg.what <= hi);
         else expected = false;
         CHECK(f.Matches(r, NULL) == expected, "sub-Message filter: the child filter applied to the indexed sub-Message (or the default one), true without a child filter if it exists");
         CheckUnmodified(what, B_MESSAGE_TYPE);
         if (mode != 2) CheckArchived(f, expected);
      }
      break;
      case K_BADARCHIVE:
      {
         // archives that are not what a filter would have written: each must be refused (NULL) or accepted, never crash; the cases with a documented verdict are checked
         Message & ar = *(new Message); Message & kid = *(new Message); const uint32 variant = ir2c_param_4();
         MuscleQueryFilterFactory fac;
         switch(variant)
         {
            case 0: {static const uint32 W[4] = {0, QUERY_FILTER_TYPE_WHATCODE-1, LAST_QUERY_FILTER_TYPE, 0xFFFFFFFFu}; ar.what = W[ir2c_param_5()&3];   /* a job constant: a symbolic code makes the factory's 19-way switch symbolic */ CHECK(static_cast<const QueryFilterFactory &>(fac).CreateQueryFilter(ar)() == NULL, "an unknown what-code yields no filter");} break;
            case 1: {ar.what = QUERY_FILTER_TYPE_INT32; (void) ar.AddString("fn", "f"); CHECK(static_cast<const QueryFilterFactory &>(fac).CreateQueryFilter(ar)() == NULL, "a numeric filter archive without an operand is refused");} break;
            case 2: {ar.what = QUERY_FILTER_TYPE_INT32; (void) ar.AddString("fn", "f"); const int64 b = (int64) nondet_u64(); (void) ar.AddData("val", B_INT64_TYPE, &b, sizeof(b));
                     CHECK(static_cast<const QueryFilterFactory &>(fac).CreateQueryFilter(ar)() == NULL, "a numeric filter archive whose operand has another type is refused");} break;
            case 3: {ar.what = QUERY_FILTER_TYPE_INT32; const int32 v = (int32) nondet_u32(); (void) ar.AddData("val", B_INT32_TYPE, &v, sizeof(v));    // no field name, no operator, no mask: defaults apply
                     QueryFilterRef g = static_cast<const QueryFilterFactory &>(fac).CreateQueryFilter(ar); if (g()) {(void) g_msg.AddInt32("", v); DummyConstMessageRef r(g_msg); (void) g()->Matches(r, NULL);}} break;
            case 4: {ar.what = QUERY_FILTER_TYPE_MINMATCH; static const uint32 W[4] = {0, QUERY_FILTER_TYPE_WHATCODE-1, LAST_QUERY_FILTER_TYPE, 0xFFFFFFFFu}; kid.what = W[ir2c_param_5()&3]; (void) ar.AddMessage("kid", DummyMessageRef(kid));
                     CHECK(static_cast<const QueryFilterFactory &>(fac).CreateQueryFilter(ar)() == NULL, "a combinator archive with an unrestorable child is refused");} break;
            default:{ar.what = QUERY_FILTER_TYPE_MESSAGE; (void) ar.AddInt32("kid", 5); QueryFilterRef g = static_cast<const QueryFilterFactory &>(fac).CreateQueryFilter(ar); if (g()) {DummyConstMessageRef r(g_msg); (void) g()->Matches(r, NULL);}} break;
         }
      }
      break;
      default: break;
   }
   VERIF_REACHED();
}

