// C20 -- Pulse callbacks fire for every due node and never before their time.
// The whole of util/PulseNode.cpp is executed symbolically on a small tree.  Shape (ir2c_param): 0 = tree, 1 = scenario, 2 = node the scenario acts on.
// Symbolic: every requested time (drawn from {0..7, never}: the code only compares times and takes minima), every "now", the clear flag.
// Oracle: per node, the harness keeps the time the node last ANSWERED (eff) and whether that answer is still current (valid).
#include "util/PulseNode.h"
#include "vsym.h"
using namespace muscle;

class TNode : public PulseNode {
public:
   TNode() : _req(MUSCLE_TIME_NEVER), _asked(0), _fired(0), _firedSched(0), _firedNow(0), _lastPrev(0) {}
   virtual uint64 GetPulseTime(const PulseArgs & a) {_asked++; _lastPrev = a.GetScheduledTime(); return _req;}
   virtual void Pulse(const PulseArgs & a) {_fired++; _firedSched = a.GetScheduledTime(); _firedNow = a.GetCallbackTime();}
   uint64 _req; uint32 _asked; uint32 _fired; uint64 _firedSched; uint64 _firedNow; uint64 _lastPrev;
};
class Mgr : public PulseNodeManager {public: using PulseNodeManager::CallGetPulseTimeAux; using PulseNodeManager::CallPulseAux;};

#define MAXNODES 4
static TNode * N[MAXNODES]; static uint32 NN;
static int par[MAXNODES];           // oracle: parent index or -1 (root / detached)
static bool attached[MAXNODES];     // oracle: reachable from the root
static uint64 eff[MAXNODES];        // oracle: the node's last answer
static bool valid[MAXNODES];        // oracle: that answer is current (not fired, not invalidated since)
static uint32 askedBefore[MAXNODES], firedBefore[MAXNODES];
static bool dead[MAXNODES];         // destroyed nodes are not looked at any more

static uint64 SymTime() {const uint8 r = nondet_u8(); return (r&8) ? MUSCLE_TIME_NEVER : (uint64)(r&7);}

static void BuildTree(uint32 shape)
{
   switch(shape)
   {
      case 0: NN=3; par[0]=-1; par[1]=0; par[2]=0; break;                 // root + 2 leaves
      case 1: NN=3; par[0]=-1; par[1]=0; par[2]=1; break;                 // chain of 3
      case 2: NN=4; par[0]=-1; par[1]=0; par[2]=1; par[3]=1; break;       // root, child, 2 grandchildren
      case 4: NN=2; par[0]=-1; par[1]=0; break;                           // root + 1 leaf
      default:NN=4; par[0]=-1; par[1]=0; par[2]=0; par[3]=0; break;       // root + 3 leaves
   }
   for (uint32 i=0; i<NN; i++) {attached[i]=true; valid[i]=false; dead[i]=false; eff[i]=MUSCLE_TIME_NEVER;}
   for (uint32 i=1; i<NN; i++) N[par[i]]->PutPulseChild(N[i]);
}
static bool IsAttached(uint32 i) {int p=(int)i; for (uint32 k=0;k<MAXNODES+1;k++) {if (p==0) return true; if (p<0) return false; p=par[p];} return false;}
static void Snapshot() {for (uint32 i=0;i<NN;i++) if (!dead[i]) {askedBefore[i]=N[i]->_asked; firedBefore[i]=N[i]->_fired;}}

// structural invariant of a quiescent tree (after a recalculation)
static void CheckStructure()
{
   for (uint32 i=0; i<NN; i++) if ((!dead[i])&&(IsAttached(i)))
   {
      PulseNode * n = N[i];
      CHECK(n->_myScheduledTimeValid, "after recalculation every attached node's own time is valid");
      for (uint32 l=0; l<PulseNode::NUM_LINKED_LISTS; l++)
      {
         PulseNode * prev = NULL; uint32 cnt=0;
         for (PulseNode * c = n->_firstChild[l]; c; c = c->_nextSibling)
         {
            CHECK(c->_parent == n, "child's parent pointer");
            CHECK(c->_curList == (int)l, "child knows the list it is in");
            CHECK(c->_prevSibling == prev, "sibling links are mutually consistent");
            if ((l == PulseNode::LINKED_LIST_SCHEDULED)&&(prev)) CHECK(prev->_aggregatePulseTime <= c->_aggregatePulseTime, "scheduled list is sorted");
            if (l == PulseNode::LINKED_LIST_SCHEDULED) CHECK(c->_aggregatePulseTime != MUSCLE_TIME_NEVER, "scheduled children have a time");
            if (l == PulseNode::LINKED_LIST_UNSCHEDULED) CHECK(c->_aggregatePulseTime == MUSCLE_TIME_NEVER, "unscheduled children have none");
            prev = c; cnt++; ASSUME(cnt <= MAXNODES);
         }
         CHECK(n->_lastChild[l] == prev, "last pointer");
      }
      CHECK(n->_firstChild[PulseNode::LINKED_LIST_NEEDSRECALC] == NULL, "nothing left to recalculate");
      uint32 kids=0; for (uint32 j=0;j<NN;j++) if (par[j]==(int)i) kids++;
      uint32 listed=0; for (uint32 l=0; l<PulseNode::NUM_LINKED_LISTS; l++) for (PulseNode * c = n->_firstChild[l]; c; c = c->_nextSibling) listed++;
      CHECK(kids == listed, "each child is in exactly one list");
      const uint64 fc = n->_firstChild[PulseNode::LINKED_LIST_SCHEDULED] ? n->_firstChild[PulseNode::LINKED_LIST_SCHEDULED]->_aggregatePulseTime : MUSCLE_TIME_NEVER;
      CHECK(n->_aggregatePulseTime == ((n->_myScheduledTime < fc) ? n->_myScheduledTime : fc), "aggregate = min(own, first scheduled child)");
   }
}

static uint64 Recalc(Mgr & m, uint64 now)
{
   Snapshot();
   uint64 min = MUSCLE_TIME_NEVER;
   m.CallGetPulseTimeAux(*N[0], now, min);
   uint64 expect = MUSCLE_TIME_NEVER;
   for (uint32 i=0; i<NN; i++) if (dead[i]) continue; else if (IsAttached(i))
   {
      if (valid[i] == false) {CHECK(N[i]->_asked == askedBefore[i]+1, "a node whose answer is stale is asked exactly once"); eff[i] = N[i]->_req; valid[i] = true;}
                        else CHECK(N[i]->_asked == askedBefore[i], "a node whose answer is current is not asked again");
      if (eff[i] < expect) expect = eff[i];
   }
   else CHECK(N[i]->_asked == askedBefore[i], "a detached node is not asked");
   CHECK(min == expect, "the wake-up time is the minimum over all attached nodes");
   CHECK(N[0]->_aggregatePulseTime == expect, "root aggregate time");
   if (ir2c_param_3()) CheckStructure();
   verif_observe(min);
   return min;
}
static void DoPulse(Mgr & m, uint64 t)
{
   Snapshot();
   m.CallPulseAux(*N[0], t);
   for (uint32 i=0; i<NN; i++)
   {
      if (dead[i]) continue;
      const bool due = (IsAttached(i))&&(valid[i])&&(eff[i] <= t);
      CHECK(N[i]->_fired == firedBefore[i]+(due?1:0), "a node fires exactly once iff it is due, never before its time");
      if (due) {CHECK(N[i]->_firedSched == eff[i], "the callback is given the node's own scheduled time"); CHECK(N[i]->_firedNow == t, "the callback is given the current time"); valid[i] = false;}
      verif_observe(N[i]->_fired);
   }
}

extern "C" void harness_pulse(void)
{
   TNode n0, n1, n2, n3; N[0]=&n0; N[1]=&n1; N[2]=&n2; N[3]=&n3;
   const uint32 shape = ir2c_param_0(), scen = ir2c_param_1(), k = ir2c_param_2();
   BuildTree(shape);
   ASSUME((k > 0)&&(k < NN));
   Mgr m;
   for (uint32 i=0; i<NN; i++) N[i]->_req = SymTime();
   uint64 now = SymTime(); ASSUME(now != MUSCLE_TIME_NEVER);
   (void) Recalc(m, now);
   // scenarios are kept short (symbolic execution cost grows steeply with every step on the linked structure); together they cover the transitions
   // quiescent -> pulse -> quiescent and quiescent -> structural operation -> quiescent -> pulse
   uint64 t0 = SymTime(); ASSUME((t0 != MUSCLE_TIME_NEVER)&&(t0 >= now));
   switch(scen)
   {
      case 0: DoPulse(m, t0); break;                                        // recalc, pulse
      case 1: {DoPulse(m, t0);                                              // recalc, pulse, recalc: every node that fired is asked again before any further wait
               for (uint32 i=0; i<NN; i++) N[i]->_req = SymTime();
               uint64 t1 = SymTime(); ASSUME((t1 != MUSCLE_TIME_NEVER)&&(t1 >= t0)); (void) Recalc(m, t1);} break;
      case 2: {const bool clr = (nondet_u8()&1)!=0; N[k]->InvalidatePulseTime(clr); valid[k]=false; N[k]->_req = SymTime();   // recalc, invalidate(k), recalc, pulse
               (void) Recalc(m, t0);
               if (clr) CHECK(N[k]->_lastPrev == MUSCLE_TIME_NEVER, "after a clearing invalidate the node is told it had no previous time");
               uint64 t1 = SymTime(); ASSUME((t1 != MUSCLE_TIME_NEVER)&&(t1 >= t0)); DoPulse(m, t1);} break;
      case 3: {N[par[k]]->RemovePulseChild(N[k]); par[k] = -1; valid[k]=false;                                                 // recalc, remove(k), recalc, pulse
               (void) Recalc(m, t0); uint64 t1 = SymTime(); ASSUME((t1 != MUSCLE_TIME_NEVER)&&(t1 >= t0)); DoPulse(m, t1);} break;
      case 4: {ASSUME(NN >= 3); const uint32 np = (par[k]==0) ? ((k==1)?2u:1u) : 0u;        // recalc, re-parent(k) under another node (never under its own subtree), recalc, pulse
               ASSUME((np < NN)&&(np != k)&&(par[np] != (int)k)); N[np]->PutPulseChild(N[k]); par[k]=(int)np; valid[k]=false;
               (void) Recalc(m, t0); uint64 t1 = SymTime(); ASSUME((t1 != MUSCLE_TIME_NEVER)&&(t1 >= t0)); DoPulse(m, t1);} break;
      case 5: {N[k]->~TNode(); dead[k] = true;                              // recalc, destroy(k): it and its subtree leave the tree; recalc, pulse
               for (uint32 i=0;i<NN;i++) if (par[i]==(int)k) {par[i]=-1; valid[i]=false;} par[k]=-1;
               (void) Recalc(m, t0); uint64 t1 = SymTime(); ASSUME((t1 != MUSCLE_TIME_NEVER)&&(t1 >= t0)); DoPulse(m, t1);} break;
   }
   VERIF_REACHED();
}
