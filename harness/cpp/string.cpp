// C17 -- String behaves as an ideal byte string across its small-buffer boundary.
// Shape (ir2c_param): 0 = receiver length L, 1 = operand length M, 2 = position/argument k.  Lengths decide which representation (inline / heap) is live
// before and after the operation, so they are job constants; every content byte (1..255) is symbolic.
// Oracle: the same operation on plain char arrays, written from String.h's documentation.
#include "util/String.h"
#include "vsym.h"
using namespace muscle;

// helpers for the model of String::IsCharInLocalArray (models/string.def): that method orders two pointers, which for pointers into different objects makes CBMC reason about
// the numeric placement of objects (the solver does not return); the model answers the same question with __CPROVER_same_object + offsets.
extern "C" __attribute__((used)) const char * verif_string_buf(const String * s) {return s->Cstr();}
extern "C" __attribute__((used)) uint32 verif_string_len(const String * s) {return s->Length();}
#define MAXS 48
struct Model {uint8 b[MAXS]; uint32 n;};

static void SymBytes(uint8 * b, uint32 n) {for (uint32 i=0; i<n; i++) {b[i] = nondet_u8(); ASSUME(b[i] != 0);} b[n] = 0; verif_strlen_hint(b, n);}
// The String is put into its state by writing the representation directly (as the Queue harness does): going through SetCstr() would make the length a
// function of the symbolic content for symbolic execution (DESIGN 2.12).  P3 = 1 forces the heap representation also for short contents (a String that
// was long once keeps its heap buffer), so that both representations are covered at every length.
static void MakeString(String & s, Model & m, uint32 len)
{
   ASSUME(len < MAXS-8); m.n = len; SymBytes(m.b, len);
   const uint32 maxShort = (uint32) sizeof(s._stringData._shortStringData._smallBuffer);
   if ((len <= maxShort)&&(ir2c_param_3() == 0)) s._stringData._shortStringData.SetBuffer((const char *) m.b, len);
   else
   {
      const uint32 cap = (len+1 > maxShort+2) ? (len+1) : (maxShort+2);
      char * buf = (char *) malloc(cap); ASSUME(buf != NULL);
      for (uint32 i=0; i<=len; i++) buf[i] = (char) m.b[i];
      s._stringData._longStringData.SetBuffer(buf, cap, len);
   }
}
static void CheckString(const String & s, const Model & m)
{
   CHECK(s.Length() == m.n, "length equals the ideal string's length");
   const char * c = s.Cstr();
   for (uint32 i=0; i<m.n; i++) {CHECK((uint8) c[i] == m.b[i], "byte equals the ideal string's byte"); verif_observe((uint8) c[i]);}
   CHECK(c[m.n] == 0, "NUL terminator at Cstr()[Length()]");
   CHECK(s.Length() < s.GetNumAllocatedBytes(), "length is below the allocated size");
   CHECK(s.IsEmpty() == (m.n == 0), "IsEmpty");
   verif_observe(m.n);
}
#define H(name) extern "C" void harness_s_##name(void)
#define END() VERIF_REACHED()
#define L0 ir2c_param_0()
#define M1 ir2c_param_1()
#define K2 ir2c_param_2()

H(set)        {String s; Model m; MakeString(s, m, L0); CheckString(s, m); String t(s); CheckString(t, m); String u; u = s; CheckString(u, m); CheckString(s, m); CHECK(s == t, "copies compare equal"); END();}
H(appendchar) {String s; Model m; MakeString(s, m, L0); uint8 c = nondet_u8(); ASSUME(c != 0); s += (char) c; m.b[m.n++] = c; m.b[m.n] = 0; CheckString(s, m); END();}
H(appendcstr) {String s; Model m; MakeString(s, m, L0); uint8 o[8]; SymBytes(o, M1); s += (const char *) o; for (uint32 i=0;i<M1;i++) m.b[m.n++] = o[i]; m.b[m.n]=0; CheckString(s, m); END();}
H(appendstr)  {String s; Model m; MakeString(s, m, L0); String t; Model tm; MakeString(t, tm, M1); s += t; for (uint32 i=0;i<tm.n;i++) m.b[m.n++] = tm.b[i]; m.b[m.n]=0; CheckString(s, m); CheckString(t, tm); END();}
H(appendself) {String s; Model m; MakeString(s, m, L0); s += s; const uint32 n0 = m.n; for (uint32 i=0;i<n0;i++) m.b[m.n++] = m.b[i]; m.b[m.n]=0; CheckString(s, m); END();}
H(appendownptr) {String s; Model m; MakeString(s, m, L0); ASSUME(K2 <= m.n); verif_strlen_hint((uint8 *) s.Cstr()+K2, m.n-K2); s += (s.Cstr()+K2); const uint32 n0 = m.n; for (uint32 i=K2;i<n0;i++) m.b[m.n++] = m.b[i]; m.b[m.n]=0; CheckString(s, m); END();}   // operand points into the receiver's own buffer
H(setownptr)  {String s; Model m; MakeString(s, m, L0); ASSUME(K2 <= m.n); verif_strlen_hint((uint8 *) s.Cstr()+K2, m.n-K2); CHECK(s.SetCstr(s.Cstr()+K2).IsOK(), "SetCstr(own buffer) succeeds"); const uint32 n0=m.n; m.n=0; for (uint32 i=K2;i<n0;i++) m.b[m.n++] = m.b[i]; m.b[m.n]=0; CheckString(s, m); END();}
H(setcstrmax) {String s; Model m; MakeString(s, m, L0); uint8 o[24]; SymBytes(o, M1); CHECK(s.SetCstr((const char *) o, K2).IsOK(), "SetCstr(str,maxLen) succeeds"); m.n = (K2<M1)?K2:M1; for (uint32 i=0;i<m.n;i++) m.b[i]=o[i]; m.b[m.n]=0; CheckString(s, m); END();}
H(prepend)    {String s; Model m; MakeString(s, m, L0); uint8 o[8]; SymBytes(o, M1); String r = s.WithPrepend((const char *) o); Model rm; rm.n=0; for (uint32 i=0;i<M1;i++) rm.b[rm.n++]=o[i]; for (uint32 i=0;i<m.n;i++) rm.b[rm.n++]=m.b[i]; rm.b[rm.n]=0; CheckString(r, rm); CheckString(s, m); END();}
H(substring)  {String s; Model m; MakeString(s, m, L0); const uint32 b = M1, e = K2; String r = s.Substring(b, e); Model rm; rm.n=0; const uint32 ee = (e<m.n)?e:m.n; for (uint32 i=b;i<ee;i++) rm.b[rm.n++]=m.b[i]; rm.b[rm.n]=0; CheckString(r, rm); CheckString(s, m); END();}
H(truncate)   {String s; Model m; MakeString(s, m, L0); s.TruncateToLength(K2); if (K2 < m.n) {m.n = K2; m.b[m.n]=0;} CheckString(s, m); END();}
H(truncatechars) {String s; Model m; MakeString(s, m, L0); s.TruncateChars(K2); m.n = (K2<m.n)?(m.n-K2):0; m.b[m.n]=0; CheckString(s, m); END();}
H(clear)      {String s; Model m; MakeString(s, m, L0); if (K2) s.ClearAndFlush(); else s.Clear(); m.n=0; m.b[0]=0; CheckString(s, m); uint8 c = nondet_u8(); ASSUME(c!=0); s += (char) c; m.b[m.n++]=c; m.b[m.n]=0; CheckString(s, m); END();}
H(swap)       {String s; Model m; MakeString(s, m, L0); String t; Model tm; MakeString(t, tm, M1); s.SwapContents(t); CheckString(s, tm); CheckString(t, m); END();}
H(assign)     {String s; Model m; MakeString(s, m, L0); String t; Model tm; MakeString(t, tm, M1); s = t; CheckString(s, tm); CheckString(t, tm); s = s; CheckString(s, tm); END();}
H(compare)    {String s; Model m; MakeString(s, m, L0); String t; Model tm; MakeString(t, tm, M1);
               int e = 0; for (uint32 i=0; (i<=m.n)&&(i<=tm.n); i++) {if (m.b[i] != tm.b[i]) {e = (m.b[i] < tm.b[i]) ? -1 : 1; break;}}
               const int r = s.CompareTo(t); CHECK(((r<0)&&(e<0))||((r==0)&&(e==0))||((r>0)&&(e>0)), "CompareTo orders like strcmp");
               CHECK((s == t) == (e == 0), "operator=="); CHECK((s != t) == (e != 0), "operator!="); CHECK((s < t) == (e < 0), "operator<"); CHECK((s > t) == (e > 0), "operator>");
               CheckString(s, m); CheckString(t, tm); END();}
H(indexof)    {String s; Model m; MakeString(s, m, L0); uint8 c = nondet_u8(); ASSUME(c != 0);
               int e = -1; for (uint32 i=0;i<m.n;i++) if (m.b[i]==c) {e=(int)i; break;} CHECK(s.IndexOf((char)c) == e, "IndexOf(char)");
               // LastIndexOf(char) is not checked: its loop "while(--p >= s)" steps the pointer one before the buffer, which CBMC models as a huge offset (the loop then never
               // ends in the model); natively it terminates.  Standard-level UB that no sanitizer confirms -- reported here, not decided (DESIGN 3.1).
               CHECK(s.Contains((char)c) == (e >= 0), "Contains(char)"); CHECK(s.StartsWith((char)c) == ((m.n>0)&&(m.b[0]==c)), "StartsWith(char)"); CHECK(s.EndsWith((char)c) == ((m.n>0)&&(m.b[m.n-1]==c)), "EndsWith(char)");
               CheckString(s, m); END();}
H(startsends) {String s; Model m; MakeString(s, m, L0); String t; Model tm; MakeString(t, tm, M1);
               bool sw = (tm.n <= m.n); for (uint32 i=0;(i<tm.n)&&sw;i++) if (m.b[i]!=tm.b[i]) sw=false; CHECK(s.StartsWith(t) == sw, "StartsWith(String)");
               bool ew = (tm.n <= m.n); for (uint32 i=0;(i<tm.n)&&ew;i++) if (m.b[m.n-tm.n+i]!=tm.b[i]) ew=false; CHECK(s.EndsWith(t) == ew, "EndsWith(String)");
               CheckString(s, m); END();}
H(lastindexofstr) {String s; Model m; MakeString(s, m, L0); String t; Model tm; MakeString(t, tm, M1);      // M1 >= 1
               int last = -1; for (uint32 i=0; i+tm.n<=m.n; i++) {bool eq = true; for (uint32 j=0;j<tm.n;j++) if (m.b[i+j]!=tm.b[j]) eq = false; if (eq) last = (int)i;}
               CHECK(s.LastIndexOf(t) == last, "LastIndexOf(String): the last position where the operand occurs, -1 if none");
               const uint32 from = K2; int lf = -1; if (from < m.n) for (uint32 i=0; (i<=from)&&(i+tm.n<=m.n); i++) {bool eq = true; for (uint32 j=0;j<tm.n;j++) if (m.b[i+j]!=tm.b[j]) eq = false; if (eq) lf = (int)i;}
               CHECK(s.LastIndexOf(t, from) == lf, "LastIndexOf(String, fromIndex): the last occurrence starting at or before fromIndex");
               CheckString(s, m); CheckString(t, tm); END();}
H(replacechar) {String s; Model m; MakeString(s, m, L0); const uint8 fc = nondet_u8(), rc = nondet_u8(); ASSUME((fc != 0)&&(rc != 0)); const uint32 from = M1, maxn = K2;
               uint32 cnt = 0; if ((fc != rc)&&(from < m.n)) for (uint32 i=from; i<m.n; i++) if ((cnt < maxn)&&(m.b[i] == fc)) {m.b[i] = rc; cnt++;}
               CHECK(s.Replace((char)fc, (char)rc, maxn, from) == cnt, "Replace(char,char,max,from) returns the number of replacements");
               CheckString(s, m); END();}
H(reverse)    {String s; Model m; MakeString(s, m, L0); s.Reverse(); for (uint32 i=0;i<m.n/2;i++) {uint8 t=m.b[i]; m.b[i]=m.b[m.n-1-i]; m.b[m.n-1-i]=t;} CheckString(s, m); END();}
H(flatten)    {String s; Model m; MakeString(s, m, L0); CHECK(s.FlattenedSize() == m.n+1, "FlattenedSize = length + NUL"); uint8 buf[MAXS]; s.FlattenToBytes(buf, m.n+1);
               for (uint32 i=0;i<m.n;i++) CHECK(buf[i]==m.b[i], "flattened byte"); CHECK(buf[m.n]==0, "flattened NUL");
               String t; CHECK(t.UnflattenFromBytes(buf, m.n+1).IsOK(), "Unflatten accepts bytes+NUL"); CheckString(t, m);
               String u; if (m.n > 0) CHECK(u.UnflattenFromBytes(buf, m.n).IsError(), "Unflatten rejects an unterminated buffer"); END();}
H(ensurebuf)  {String s; Model m; MakeString(s, m, L0); CHECK(s.Prealloc(K2).IsOK(), "Prealloc succeeds"); CheckString(s, m); CHECK(s.GetNumAllocatedBytes() > K2, "room for K chars + NUL"); CHECK(s.ShrinkToFit().IsOK(), "ShrinkToFit succeeds"); CheckString(s, m); END();}
