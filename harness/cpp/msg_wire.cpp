// C01/C02/C08 for the C++ Message class, shape-directed (lib/wire.py): the input is the reference encoding of a message shape with SYMBOLIC item values
// (optionally with one hostile framing word / truncated / followed by garbage).
//   harness_msg_parse : Message::UnflattenFromBytes on that input is memory-safe, terminates, stays within the allocation budget, and leaves the object usable
//                       (FlattenedSize/Flatten into an exactly-sized buffer, reusable, destructible); on the unmodified encoding it must SUCCEED, re-flatten to
//                       exactly the same bytes with FlattenedSize() == length (C01 size exactness, C08 C++ reader+writer against the reference).
#include "message/Message.h"
#include "vsym.h"
extern "C" {
unsigned wl_total(void); unsigned wl_full(void); unsigned wl_nvals(void); unsigned wl_pristine(void);
void wl_encode(const unsigned char * V, unsigned char * b);
}
using namespace muscle;
#define WL_MAXVALS 96
extern "C" void harness_msg_parse(void)
{
   unsigned char V[WL_MAXVALS];
   const unsigned nv = wl_nvals(), T = wl_total();
   for (unsigned i=0; i<nv; i++) V[i] = nondet_u8();
   uint8 * buf = newnothrow_array(uint8, T ? T : 1); ASSUME(buf != NULL);
   wl_encode(V, buf);
   Message m;
   const status_t st = m.UnflattenFromBytes(buf, T);
   if (wl_pristine()) CHECK(st.IsOK(), "the reference encoding is accepted");
   const uint32 fs = m.FlattenedSize();
   CHECK(fs >= 12, "flattened size covers the header");
   if (wl_pristine()) CHECK(fs == T, "FlattenedSize() of the parsed Message equals the input length");
   uint8 * out = newnothrow_array(uint8, fs); ASSUME(out != NULL);
   m.FlattenToBytes(out, fs);
   if ((wl_pristine())&&(fs == T)) for (unsigned i=0; i<T; i++) CHECK(out[i] == buf[i], "re-flattened byte equals the reference encoding");
   for (unsigned i=0; (i<fs)&&(i<128); i++) verif_observe(out[i]);
   verif_observe(st.IsOK()); verif_observe(fs);
   VERIF_REACHED();
}
