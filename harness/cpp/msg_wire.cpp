// C01/C02/C08 for the C++ Message class, shape-directed (lib/wire.py): the input is the reference encoding of a message shape with SYMBOLIC item values
// (optionally with one hostile framing word / truncated / followed by garbage).
//   harness_msg_parse : Message::UnflattenFromBytes on that input is memory-safe, terminates, stays within the allocation budget, and leaves the object usable
//                       (FlattenedSize/Flatten into an exactly-sized buffer, reusable, destructible); on the unmodified encoding it must SUCCEED, re-flatten to
//                       exactly the same bytes with FlattenedSize() == length (C01 size exactness, C08 C++ reader+writer against the reference).
#include "message/Message.h"
#include "vsym.h"
extern "C" {
unsigned wl_total(void); unsigned wl_full(void); unsigned wl_nvals(void); unsigned wl_pristine(void); unsigned wl_concrete_strings(void);
void wl_encode(const unsigned char * V, unsigned char * b);
typedef struct { const char * name; unsigned kind, tc, n, voff; int lens; int subs; } WLField;
typedef struct { int what_off; unsigned what; unsigned nfields; unsigned first; } WLMsg;
const void * wl_fields_ptr(void); const void * wl_msgs_ptr(void); const void * wl_lens_ptr(void); const void * wl_subs_ptr(void); unsigned wl_nmsgs_fn(void);
}
#define wl_fields ((const WLField *) wl_fields_ptr())
#define wl_msgs ((const WLMsg *) wl_msgs_ptr())
#define wl_lens ((const unsigned *) wl_lens_ptr())
#define wl_subs ((const int *) wl_subs_ptr())
#define wl_nmsgs wl_nmsgs_fn()
enum { WK_BOOL, WK_INT8, WK_INT16, WK_INT32, WK_INT64, WK_FLOAT, WK_DOUBLE, WK_POINT, WK_RECT, WK_STRING, WK_RAW, WK_MESSAGE };
using namespace muscle;
#define WL_MAXVALS 96
extern "C" void harness_msg_parse(void)
{
   unsigned char V[WL_MAXVALS];
   const unsigned nv = wl_nvals(), T = wl_total();
   for (unsigned i=0; i<nv; i++) V[i] = nondet_u8();
   uint8 * buf = newnothrow_array(uint8, T ? T : 1); ASSUME(buf != NULL);
   wl_encode(V, buf);
   Message m;
   const status_t st = m.UnflattenFromBytes(buf, T);
   if (wl_pristine()) CHECK(st.IsOK(), "the reference encoding is accepted");
   const uint32 fs = m.FlattenedSize();
   CHECK(fs >= 12, "flattened size covers the header");
   if (wl_pristine()) CHECK(fs == T, "FlattenedSize() of the parsed Message equals the input length");
   uint8 * out = newnothrow_array(uint8, fs); ASSUME(out != NULL);
   m.FlattenToBytes(out, fs);
   if ((wl_pristine())&&(fs == T))
   {
      // bool items are canonicalised by the reader (any non-zero byte is true and is written back as 1); every other byte must come back unchanged
      unsigned char canon[160]; unsigned char Vc[WL_MAXVALS]; for (unsigned i=0; i<nv; i++) Vc[i] = V[i];
      for (unsigned mi=0; mi<wl_nmsgs; mi++) for (unsigned fi=0; fi<wl_msgs[mi].nfields; fi++) {const WLField * f = &wl_fields[wl_msgs[mi].first+fi]; if (f->kind == WK_BOOL) for (unsigned i=0; i<f->n; i++) Vc[f->voff+i] = (V[f->voff+i] != 0) ? 1 : 0;}
      wl_encode(Vc, canon);
      for (unsigned i=0; i<T; i++) CHECK(out[i] == canon[i], "re-flattened byte equals the (bool-canonicalised) reference encoding");
   }
   for (unsigned i=0; (i<fs)&&(i<128); i++) verif_observe(out[i]);
   verif_observe(st.IsOK()); verif_observe(fs);
   VERIF_REACHED();
}

static inline uint16 V16(const unsigned char * p) {return (uint16)((uint16)p[0] | ((uint16)p[1] << 8));}
static inline uint32 V32(const unsigned char * p) {return (uint32)p[0] | ((uint32)p[1] << 8) | ((uint32)p[2] << 16) | ((uint32)p[3] << 24);}
static inline uint64 V64(const unsigned char * p) {return (uint64)V32(p) | ((uint64)V32(p+4) << 32);}
static inline float VF(const unsigned char * p) {const uint32 u = V32(p); float f; memcpy(&f, &u, 4); return f;}
static inline double VD(const unsigned char * p) {const uint64 u = V64(p); double f; memcpy(&f, &u, 8); return f;}
static inline uint32 F32(float f) {uint32 u; memcpy(&u, &f, 4); return u;}
static inline uint64 D64(double f) {uint64 u; memcpy(&u, &f, 8); return u;}
// string content byte at V offset (off): a job constant when the layout was generated with concrete_strings (see lib/wire.py), else the symbolic payload byte
static inline unsigned char StrByte(const unsigned char * V, unsigned off) {return wl_concrete_strings() ? (unsigned char)(97 + (off % 26)) : V[off];}

// builds message (mi) of the shape tables through the public Add* API, every item value taken from V
static bool g_prepend = false;
static void Build(Message & m, unsigned mi, const unsigned char * V)
{
   const WLMsg * M = &wl_msgs[mi];
   m.what = (M->what_off >= 0) ? V32(V + M->what_off) : M->what;
   for (unsigned fi=0; fi<M->nfields; fi++)
   {
      const WLField * f = &wl_fields[M->first + fi];
      const unsigned char * p = V + f->voff;
      unsigned o = 0;
      // g_prepend: fixed-size fields with >= 2 items are built as Add(item1..itemN-1) followed by Prepend(item0) -- same Message, but the item storage ring wraps
      const bool pre = (g_prepend)&&(f->n >= 2)&&(f->kind != WK_STRING)&&(f->kind != WK_RAW)&&(f->kind != WK_MESSAGE);
      for (unsigned step=0; step<f->n; step++)
      {
         const unsigned i = pre ? ((step+1 < f->n) ? (step+1) : 0) : step;
         const bool pp = (pre)&&(step+1 == f->n);
         status_t r;
         switch(f->kind)
         {
            case WK_BOOL:   r = pp ? m.PrependBool(f->name, p[i] != 0)            : m.AddBool(f->name, p[i] != 0); break;
            case WK_INT8:   r = pp ? m.PrependInt8(f->name, (int8) p[i])           : m.AddInt8(f->name, (int8) p[i]); break;
            case WK_INT16:  r = pp ? m.PrependInt16(f->name, (int16) V16(p+2*i))   : m.AddInt16(f->name, (int16) V16(p+2*i)); break;
            case WK_INT32:  r = pp ? m.PrependInt32(f->name, (int32) V32(p+4*i))   : m.AddInt32(f->name, (int32) V32(p+4*i)); break;
            case WK_INT64:  r = pp ? m.PrependInt64(f->name, (int64) V64(p+8*i))   : m.AddInt64(f->name, (int64) V64(p+8*i)); break;
            case WK_FLOAT:  r = pp ? m.PrependFloat(f->name, VF(p+4*i))            : m.AddFloat(f->name, VF(p+4*i)); break;
            case WK_DOUBLE: r = pp ? m.PrependDouble(f->name, VD(p+8*i))           : m.AddDouble(f->name, VD(p+8*i)); break;
            case WK_POINT:  r = pp ? m.PrependPoint(f->name, Point(VF(p+8*i), VF(p+8*i+4))) : m.AddPoint(f->name, Point(VF(p+8*i), VF(p+8*i+4))); break;
            case WK_RECT:   r = pp ? m.PrependRect(f->name, Rect(VF(p+16*i), VF(p+16*i+4), VF(p+16*i+8), VF(p+16*i+12))) : m.AddRect(f->name, Rect(VF(p+16*i), VF(p+16*i+4), VF(p+16*i+8), VF(p+16*i+12))); break;
            case WK_STRING:
            {
               const unsigned l = wl_lens[f->lens+i]; char tmp[8]; for (unsigned j=0; j<l; j++) tmp[j] = (char) StrByte(V, f->voff+o+j); tmp[l] = 0;
               verif_strlen_hint((uint8_t *) tmp, l);
               r = m.AddString(f->name, tmp); o += l;
            }
            break;
            case WK_RAW: {const unsigned l = wl_lens[f->lens+i]; r = m.AddData(f->name, f->tc, p+o, l); o += l;} break;
            case WK_MESSAGE:
            {
               MessageRef sub = GetMessageFromPool(0); ASSUME(sub() != NULL);
               Build(*sub(), (unsigned) wl_subs[f->subs+i], V);
               r = m.AddMessage(f->name, sub);
            }
            break;
            default: break;
         }
         CHECK(r.IsOK(), "Add* succeeds");
      }
   }
}
// every item of message (mi) read back through the public Find* API equals the value in V (bit patterns for floating point)
static void CheckValues(const Message & m, unsigned mi, const unsigned char * V)
{
   const WLMsg * M = &wl_msgs[mi];
   CHECK(m.what == ((M->what_off >= 0) ? V32(V + M->what_off) : M->what), "what code");
   CHECK(m.GetNumNames() == M->nfields, "field count");
   for (unsigned fi=0; fi<M->nfields; fi++)
   {
      const WLField * f = &wl_fields[M->first + fi];
      const unsigned char * p = V + f->voff;
      uint32 tc = 0, ni = 0;
      CHECK(m.GetInfo(f->name, &tc, &ni).IsOK() && tc == f->tc && ni == f->n, "field present with its type code and item count");
      unsigned o = 0;
      for (unsigned i=0; i<f->n; i++)
      {
         switch(f->kind)
         {
            case WK_BOOL:   {bool v=false;  CHECK(m.FindBool(f->name, i, v).IsOK() && v == (p[i] != 0), "bool value");} break;
            case WK_INT8:   {int8 v=0;      CHECK(m.FindInt8(f->name, i, v).IsOK() && (uint8) v == p[i], "int8 value");} break;
            case WK_INT16:  {int16 v=0;     CHECK(m.FindInt16(f->name, i, v).IsOK() && (uint16) v == V16(p+2*i), "int16 value");} break;
            case WK_INT32:  {int32 v=0;     CHECK(m.FindInt32(f->name, i, v).IsOK() && (uint32) v == V32(p+4*i), "int32 value");} break;
            case WK_INT64:  {int64 v=0;     CHECK(m.FindInt64(f->name, i, v).IsOK() && (uint64) v == V64(p+8*i), "int64 value");} break;
            case WK_FLOAT:  {float v=0;     CHECK(m.FindFloat(f->name, i, v).IsOK() && F32(v) == V32(p+4*i), "float bit pattern");} break;
            case WK_DOUBLE: {double v=0;    CHECK(m.FindDouble(f->name, i, v).IsOK() && D64(v) == V64(p+8*i), "double bit pattern");} break;
            case WK_POINT:  {Point v;       CHECK(m.FindPoint(f->name, i, v).IsOK() && F32(v.x()) == V32(p+8*i) && F32(v.y()) == V32(p+8*i+4), "point value");} break;
            case WK_RECT:   {Rect v;        CHECK(m.FindRect(f->name, i, v).IsOK() && F32(v.left()) == V32(p+16*i) && F32(v.top()) == V32(p+16*i+4) && F32(v.right()) == V32(p+16*i+8) && F32(v.bottom()) == V32(p+16*i+12), "rect value");} break;
            case WK_STRING:
            {
               const String * sp = NULL; const unsigned l = wl_lens[f->lens+i];
               CHECK(m.FindString(f->name, i, &sp).IsOK() && sp != NULL, "string found");
               if (sp) {CHECK(sp->Length() == l, "string length"); for (unsigned j=0; j<l; j++) CHECK((unsigned char)(*sp)[j] == StrByte(V, f->voff+o+j), "string byte");}
               o += l;
            }
            break;
            case WK_RAW:
            {
               const void * d = NULL; uint32 nb = 0; const unsigned l = wl_lens[f->lens+i];
               if (l == 0) break;   // Message::FindData reports B_TYPE_MISMATCH for an empty ByteBuffer by design (the C++ API does not hand out zero-length items); count and re-serialisation are checked
               CHECK(m.FindData(f->name, f->tc, i, &d, &nb).IsOK() && nb == l, "blob found with its length");
               if ((d)&&(nb == l)) for (unsigned j=0; j<l; j++) CHECK(((const uint8 *)d)[j] == p[o+j], "blob byte");
               o += l;
            }
            break;
            case WK_MESSAGE:
            {
               ConstMessageRef sub; CHECK(m.FindMessage(f->name, i, sub).IsOK() && sub() != NULL, "sub-message found");
               if (sub()) CheckValues(*sub(), (unsigned) wl_subs[f->subs+i], V);
            }
            break;
            default: break;
         }
      }
   }
}
static void CanonicalV(unsigned char * V)
{
   // bool payload bytes must be 0/1 for the writers (they canonicalise)
   for (unsigned mi=0; mi<wl_nmsgs; mi++) for (unsigned fi=0; fi<wl_msgs[mi].nfields; fi++) {const WLField * f = &wl_fields[wl_msgs[mi].first+fi]; if (f->kind == WK_BOOL) for (unsigned i=0; i<f->n; i++) ASSUME(V[f->voff+i] <= 1);}
}

// C01 + C08 (writer and reader): API -> bytes == reference encoding, size exact; bytes -> equal Message, values bit-identical, re-serialisation byte-identical
extern "C" void harness_msg_build(void)
{
   unsigned char V[WL_MAXVALS]; const unsigned nv = wl_nvals(), L = wl_full();
   for (unsigned i=0; i<nv; i++) V[i] = nondet_u8();
   CanonicalV(V);
   unsigned char ref[160]; wl_encode(V, ref);
   Message m; Build(m, 0, V);
   const uint32 fs = m.FlattenedSize();
   CHECK(fs == L, "FlattenedSize() equals the reference size");
   uint8 * out = newnothrow_array(uint8, L); ASSUME(out != NULL);
   if (fs == L)
   {
      m.FlattenToBytes(out, fs);
      for (unsigned i=0; i<L; i++) {CHECK(out[i] == ref[i], "flattened byte equals the reference encoding"); verif_observe(out[i]);}
      Message n;
      CHECK(n.UnflattenFromBytes(out, fs).IsOK(), "its own bytes are accepted");
      CheckValues(n, 0, V);
      CHECK(n == m, "the parsed Message compares equal to the original");
      CHECK(n.FlattenedSize() == fs, "same size after the round trip");
      uint8 * out2 = newnothrow_array(uint8, L); ASSUME(out2 != NULL);
      n.FlattenToBytes(out2, fs);
      for (unsigned i=0; i<L; i++) CHECK(out2[i] == out[i], "re-serialisation is byte-identical");
   }
   VERIF_REACHED();
}
// C08 (reader against the reference bytes) + values
extern "C" void harness_msg_parse_ref(void)
{
   unsigned char V[WL_MAXVALS]; const unsigned nv = wl_nvals(), T = wl_total();
   for (unsigned i=0; i<nv; i++) V[i] = nondet_u8();
   uint8 * buf = newnothrow_array(uint8, T ? T : 1); ASSUME(buf != NULL);
   wl_encode(V, buf);
   Message m;
   CHECK(m.UnflattenFromBytes(buf, T).IsOK(), "the reference encoding is accepted");
   CheckValues(m, 0, V);
   VERIF_REACHED();
}

// the writer alone (C08: API -> bytes == reference; C01: size exact)
extern "C" void harness_msg_flatten(void)
{
   unsigned char V[WL_MAXVALS]; const unsigned nv = wl_nvals(), L = wl_full();
   for (unsigned i=0; i<nv; i++) V[i] = nondet_u8();
   CanonicalV(V);
   unsigned char ref[160]; wl_encode(V, ref);
   Message m; Build(m, 0, V);
   const uint32 fs = m.FlattenedSize();
   CHECK(fs == L, "FlattenedSize() equals the reference size");
   uint8 * out = newnothrow_array(uint8, L); ASSUME(out != NULL);
   if (fs == L) {m.FlattenToBytes(out, fs); for (unsigned i=0; i<L; i++) {CHECK(out[i] == ref[i], "flattened byte equals the reference encoding"); verif_observe(out[i]);}}
   VERIF_REACHED();
}

// the same, with the fields built through Add...+Prepend (added after seeded change C01-m3: a writer that assumes contiguous item storage)
extern "C" void harness_msg_flatten_pre(void)
{
   unsigned char V[WL_MAXVALS]; const unsigned nv = wl_nvals(), L = wl_full();
   for (unsigned i=0; i<nv; i++) V[i] = nondet_u8();
   CanonicalV(V);
   unsigned char ref[160]; wl_encode(V, ref);
   g_prepend = true;
   Message m; Build(m, 0, V);
   const uint32 fs = m.FlattenedSize();
   CHECK(fs == L, "FlattenedSize() equals the reference size");
   uint8 * out = newnothrow_array(uint8, L); ASSUME(out != NULL);
   if (fs == L) {m.FlattenToBytes(out, fs); for (unsigned i=0; i<L; i++) {CHECK(out[i] == ref[i], "flattened byte equals the reference encoding"); verif_observe(out[i]);}}
   VERIF_REACHED();
}
