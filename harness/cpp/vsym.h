/* vsym.h -- common include of every Engine-B (C++) harness */
#pragma once
#include "vsym_c.h"
extern "C" {
uint32_t ir2c_param_0(void); uint32_t ir2c_param_1(void); uint32_t ir2c_param_2(void); uint32_t ir2c_param_3(void); uint32_t ir2c_param_4(void); uint32_t ir2c_param_5(void);
void ir2c_global_ctors(void);
}
#ifdef VERIF_NATIVE
/* native build: shape parameters are the same -D macros the CBMC model functions return */
extern "C" {
#ifdef IR2C_P0
uint32_t ir2c_param_0(void) { return IR2C_P0; }
#endif
#ifdef IR2C_P1
uint32_t ir2c_param_1(void) { return IR2C_P1; }
#endif
#ifdef IR2C_P2
uint32_t ir2c_param_2(void) { return IR2C_P2; }
#endif
#ifdef IR2C_P3
uint32_t ir2c_param_3(void) { return IR2C_P3; }
#endif
#ifdef IR2C_P4
uint32_t ir2c_param_4(void) { return IR2C_P4; }
#endif
#ifdef IR2C_P5
uint32_t ir2c_param_5(void) { return IR2C_P5; }
#endif
}
#endif
