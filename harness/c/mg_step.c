/* C03 / MiniMessageGateway.c: one I/O call from an ARBITRARY valid mid-stream state (inductive step over I/O calls).
 * Receiver invariant Recv(p): the gateway has consumed exactly the first p bytes of the current frame, holds exactly those bytes, has delivered nothing of
 * this frame, and is in the phase (header/body, buffer large enough) that p implies.  Sender invariant Send(q) symmetrically.
 * Shape: BODY (frame body length), PHASE (0 header / 1 body for the receiver, 2 sender).  Symbolic: p (q), all body bytes, maxBytes, every transport count.
 * The Message codec is cut: it must be handed exactly the frame's body bytes (the codec itself is C01/C02/C08's subject). */
#include "vc.h"
#include "lang/c/minimessage/MiniMessageGateway.h"
struct _MMessageGateway { MByteBuffer * _curInput; MByteBuffer * _curOutput; MByteBuffer * _outputTail; uint32 _curInputPos; uint32 _maxInputPos; uint32 _curOutputPos; };
#ifndef BODY
#define BODY 5
#endif
#define FRAME (8+BODY)
#define MAXBUF (4*FRAME+16)
static unsigned char stream[2*FRAME]; static unsigned rd, wr; static int io_calls;
static void put32(unsigned char * p, uint32 v) { p[0]=(unsigned char)v; p[1]=(unsigned char)(v>>8); p[2]=(unsigned char)(v>>16); p[3]=(unsigned char)(v>>24); }
/* ---- codec cut ---- */
struct _MMessage { int which; }; static struct _MMessage msgs[3]; static int allocs, unflat_calls, unflat_ok, frees;
MMessage * MMAllocMessage(uint32 what) { (void) what; return &msgs[allocs++ % 3]; }
void MMFreeMessage(MMessage * m) { (void) m; frees++; }
c_status_t MMUnflattenMessage(MMessage * m, const void * buf, uint32 n) { (void) m; unflat_calls++; unflat_ok = (n == BODY); if (unflat_ok) for (unsigned i = 0; i < BODY; i++) if (((const unsigned char *) buf)[i] != stream[8+i]) unflat_ok = 0; return CB_NO_ERROR; }
uint32 MMGetFlattenedSize(const MMessage * m) { (void) m; return BODY; }
void MMFlattenMessage(const MMessage * m, void * out) { for (unsigned i = 0; i < BODY; i++) ((unsigned char *) out)[i] = stream[(unsigned) m->which * FRAME + 8 + i]; }
/* byte buffers: constant-size blocks (sizes derived from received header bytes would otherwise be symbolic allocation sizes); the logical size is numBytes
 * and every transport access is checked against it explicitly */
MByteBuffer * MBAllocByteBuffer(uint32 numBytes, MBool clear) { (void) clear; CHECK(numBytes <= MAXBUF, "buffer request within the modelled bound"); ASSUME(numBytes <= MAXBUF); MByteBuffer * b = (MByteBuffer *) malloc(sizeof(MByteBuffer) + MAXBUF); ASSUME(b != 0); b->numBytes = numBytes; return b; }
void MBFreeByteBuffer(MByteBuffer * b) { free(b); }
static MMessageGateway * gw;
static int32 RecvF(uint8 * buf, uint32 n, void * arg)
{
   (void) arg; io_calls++;
   CHECK(buf >= &gw->_curInput->bytes && (uint32) (buf - &gw->_curInput->bytes) + n <= gw->_curInput->numBytes, "receive target lies inside the input buffer");
   unsigned avail = 2*FRAME - rd; unsigned k = nondet_u32(); ASSUME(k <= n && k <= avail);
   for (unsigned i = 0; i < k; i++) buf[i] = stream[rd + i];
   rd += k; return (int32) k;
}
static int32 SendF(const uint8 * buf, uint32 n, void * arg)
{
   (void) arg; io_calls++;
   CHECK(buf >= &gw->_curOutput->bytes && (uint32) (buf - &gw->_curOutput->bytes) + n <= gw->_curOutput->numBytes, "send source lies inside the output buffer");
   unsigned k = nondet_u32(); ASSUME(k <= n);
   CHECK(wr + k <= 2*FRAME, "never sends more than the queued frames");
   for (unsigned i = 0; i < k && wr + i < 2*FRAME; i++) CHECK(buf[i] == stream[wr + i], "sent byte continues the expected stream exactly");
   wr += k; return (int32) k;
}
static void make_stream(void)
{
   for (unsigned i = 0; i < 2; i++) { put32(stream+i*FRAME, BODY); put32(stream+i*FRAME+4, 1164862256u); for (unsigned j = 0; j < BODY; j++) stream[i*FRAME+8+j] = nondet_u8(); }
}
#if PHASE < 2
void harness_mg_step(void)
{
   make_stream();
   gw = MGAllocMessageGateway(); ASSUME(gw != 0);
   unsigned p = nondet_u32();
#if PHASE == 0
   ASSUME(p < 8); gw->_maxInputPos = 8;                     /* header phase: the fresh 8-byte buffer (p = 0 is the base case: a fresh gateway) */
#else
   ASSUME(p >= 8 && p < FRAME);                             /* body phase: the header has been seen, the buffer was traded up as the code does (2*FRAME) */
   gw->_curInput->numBytes = 2*FRAME; gw->_maxInputPos = FRAME;
#endif
   for (unsigned i = 0; i < FRAME; i++) if (i < p) (&gw->_curInput->bytes)[i] = stream[i];
   gw->_curInputPos = p; rd = p;
   const uint32 outPosBefore = gw->_curOutputPos; MByteBuffer * const outBefore = gw->_curOutput;
   MMessage * r = 0;
   uint32 maxBytes = nondet_u32();
   int32 n = MGDoInput(gw, maxBytes, RecvF, 0, &r);
   CHECK(n >= 0, "no receive error on a well-formed stream");
   CHECK((unsigned) n == rd - p, "reported byte count equals the bytes consumed");
   CHECK((unsigned) n <= maxBytes, "never consumes more than maxBytes");
   CHECK(gw->_curOutputPos == outPosBefore && gw->_curOutput == outBefore, "an input call leaves the send state untouched");
   if (rd < FRAME)
   {
      CHECK(r == 0 && unflat_calls == 0, "nothing is delivered before the frame's last byte");
      CHECK(gw->_curInputPos == rd, "cursor equals the stream position");
      for (unsigned i = 0; i < FRAME; i++) if (i < rd) CHECK((&gw->_curInput->bytes)[i] == stream[i], "buffer holds exactly the stream prefix");
      CHECK(gw->_maxInputPos == (rd < 8 ? 8u : (unsigned) FRAME), "phase is the one the position implies");
      CHECK(gw->_curInput->numBytes >= gw->_maxInputPos, "buffer is large enough for the phase");
   }
   else
   {
      CHECK(r != 0 && unflat_calls == 1 && unflat_ok, "exactly the frame's body bytes are delivered, once, when the last byte arrives");
      CHECK(rd == FRAME, "the call stops at the frame boundary when it delivers");
      CHECK(gw->_curInputPos == 0 && gw->_maxInputPos == 8 && gw->_curInput->numBytes >= 8, "ready for the next frame: Recv(0)");
   }
   verif_observe(rd); verif_observe((uint64_t) n);
   VERIF_REACHED();
}
#else
void harness_mg_step(void)
{
   make_stream();
   gw = MGAllocMessageGateway(); ASSUME(gw != 0);
   msgs[0].which = 0; msgs[1].which = 1;
   CHECK(MGAddOutgoingMessage(gw, &msgs[0]) == CB_NO_ERROR && MGAddOutgoingMessage(gw, &msgs[1]) == CB_NO_ERROR, "queueing succeeds");
   /* Send(q): the first q bytes of the two-frame stream have been sent; q is anywhere in frame 1 or frame 2 */
   unsigned q = nondet_u32(); ASSUME(q < 2*FRAME);
   if (q >= FRAME) { MByteBuffer * first = gw->_curOutput; gw->_curOutput = *((MByteBuffer **) (void *) (&first->bytes)); MBFreeByteBuffer(first); gw->_curOutputPos = sizeof(MByteBuffer *) + (q - FRAME); }
   else gw->_curOutputPos = sizeof(MByteBuffer *) + q;
   wr = q;
   const uint32 inPosBefore = gw->_curInputPos, inMaxBefore = gw->_maxInputPos;
   uint32 maxBytes = nondet_u32();
   int32 n = MGDoOutput(gw, maxBytes, SendF, 0);
   CHECK(n >= 0 && (unsigned) n == wr - q, "reported byte count equals the bytes sent");
   CHECK((unsigned) n <= maxBytes, "never sends more than maxBytes");
   CHECK(gw->_curInputPos == inPosBefore && gw->_maxInputPos == inMaxBefore, "an output call leaves the receive state untouched");
   if (wr < 2*FRAME)
   {
      CHECK(gw->_curOutput != 0, "unsent data stays queued");
      CHECK(gw->_curOutputPos == sizeof(MByteBuffer *) + (wr % FRAME), "send cursor equals the stream position");
      CHECK(MGHasBytesToOutput(gw), "HasBytesToOutput while data is queued");
   }
   else CHECK(gw->_curOutput == 0 && gw->_outputTail == 0 && !MGHasBytesToOutput(gw), "queue empty after the last byte");
   verif_observe(wr); verif_observe((uint64_t) n);
   VERIF_REACHED();
}
#endif
