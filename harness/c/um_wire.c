/* C08 / MicroMessage.c against the reference layout (lib/wire.py): for a message shape with SYMBOLIC item values,
 *   build:  the UMAdd* calls produce exactly the reference bytes;
 *   parse:  UMFind* / UMGetString / UMFindData / UMFindMessage on the reference bytes return exactly the values.   */
#include "vc.h"
#include "wlv.h"
#include "lang/c/micromessage/MicroMessage.h"
#define BUFCAP 160
static void build(UMessage * m, unsigned mi, const unsigned char * V)
{
   const WLMsg * M = &wl_msgs[mi];
   for (unsigned fi = 0; fi < M->nfields; fi++)
   {
      const WLField * f = &wl_fields[M->first + fi];
      const unsigned char * p = V + f->voff;
      c_status_t r = CB_NO_ERROR;
      switch (f->kind)
      {
         case WK_BOOL:   { UBool a[8];  for (unsigned i = 0; i < f->n; i++) a[i] = p[i];                       r = UMAddBools(m, f->name, a, f->n); } break;
         case WK_INT8:   { int8 a[8];   for (unsigned i = 0; i < f->n; i++) a[i] = (int8) p[i];                r = UMAddInt8s(m, f->name, a, f->n); } break;
         case WK_INT16:  { int16 a[8];  for (unsigned i = 0; i < f->n; i++) a[i] = (int16) WLV16(p + 2 * i);   r = UMAddInt16s(m, f->name, a, f->n); } break;
         case WK_INT32:  { int32 a[8];  for (unsigned i = 0; i < f->n; i++) a[i] = (int32) WLV32(p + 4 * i);   r = UMAddInt32s(m, f->name, a, f->n); } break;
         case WK_INT64:  { int64 a[8];  for (unsigned i = 0; i < f->n; i++) a[i] = (int64) WLV64(p + 8 * i);   r = UMAddInt64s(m, f->name, a, f->n); } break;
         case WK_FLOAT:  { float a[8];  for (unsigned i = 0; i < f->n; i++) a[i] = WLVF(p + 4 * i);            r = UMAddFloats(m, f->name, a, f->n); } break;
         case WK_DOUBLE: { double a[8]; for (unsigned i = 0; i < f->n; i++) a[i] = WLVD(p + 8 * i);            r = UMAddDoubles(m, f->name, a, f->n); } break;
         case WK_POINT:  { UPoint a[4]; for (unsigned i = 0; i < f->n; i++) { a[i].x = WLVF(p + 8 * i); a[i].y = WLVF(p + 8 * i + 4); } r = UMAddPoints(m, f->name, a, f->n); } break;
         case WK_RECT:   { URect a[4];  for (unsigned i = 0; i < f->n; i++) { a[i].left = WLVF(p + 16 * i); a[i].top = WLVF(p + 16 * i + 4); a[i].right = WLVF(p + 16 * i + 8); a[i].bottom = WLVF(p + 16 * i + 12); } r = UMAddRects(m, f->name, a, f->n); } break;
         case WK_STRING:
         {
            char s[4][8]; const char * ptrs[4]; unsigned o = 0;
            for (unsigned i = 0; i < f->n; i++) { unsigned l = wl_lens[f->lens + i]; for (unsigned j = 0; j < l; j++) s[i][j] = (char) p[o + j]; s[i][l] = 0; ptrs[i] = s[i]; o += l; }
            r = UMAddStrings(m, f->name, ptrs, f->n);
         }
         break;
         case WK_RAW:
         {
            unsigned o = 0;
            for (unsigned i = 0; i < f->n; i++) { unsigned l = wl_lens[f->lens + i]; if (UMAddData(m, f->name, f->tc, p + o, l) != CB_NO_ERROR) r = CB_ERROR; o += l; }
         }
         break;
         case WK_MESSAGE:
            for (unsigned i = 0; i < f->n; i++)
            {
               const unsigned si = (unsigned) wl_subs[f->subs + i];
               const WLMsg * S = &wl_msgs[si];
               UMessage sub = UMInlineAddMessage(m, f->name, (S->what_off >= 0) ? WLV32(V + S->what_off) : S->what);
               CHECK(UMIsMessageReadOnly(&sub) == UFalse, "UMInlineAddMessage succeeds");
               build(&sub, si, V);
            }
         break;
      }
      CHECK(r == CB_NO_ERROR, "UMAdd* succeeds");
   }
}
static void check_parsed(const UMessage * m, unsigned mi, const unsigned char * V)
{
   const WLMsg * M = &wl_msgs[mi];
   CHECK(UMGetWhatCode(m) == ((M->what_off >= 0) ? WLV32(V + M->what_off) : M->what), "what code");
   CHECK(UMGetNumFields(m) == M->nfields, "field count");
   for (unsigned fi = 0; fi < M->nfields; fi++)
   {
      const WLField * f = &wl_fields[M->first + fi];
      const unsigned char * p = V + f->voff;
      CHECK(UMGetFieldTypeCode(m, f->name) == f->tc, "field type code");
      CHECK(UMGetNumItemsInField(m, f->name, f->tc) == f->n, "item count");
      unsigned o = 0;
      for (unsigned i = 0; i < f->n; i++)
      {
         switch (f->kind)
         {
            case WK_BOOL:   { UBool v = 9;  CHECK(UMFindBool(m, f->name, i, &v) == CB_NO_ERROR && v == (p[i] ? UTrue : UFalse), "bool value"); } break;
            case WK_INT8:   { int8 v = 0;   CHECK(UMFindInt8(m, f->name, i, &v) == CB_NO_ERROR && (uint8) v == p[i], "int8 value"); } break;
            case WK_INT16:  { int16 v = 0;  CHECK(UMFindInt16(m, f->name, i, &v) == CB_NO_ERROR && (uint16) v == WLV16(p + 2 * i), "int16 value"); } break;
            case WK_INT32:  { int32 v = 0;  CHECK(UMFindInt32(m, f->name, i, &v) == CB_NO_ERROR && (uint32) v == WLV32(p + 4 * i), "int32 value"); } break;
            case WK_INT64:  { int64 v = 0;  CHECK(UMFindInt64(m, f->name, i, &v) == CB_NO_ERROR && (uint64) v == WLV64(p + 8 * i), "int64 value"); } break;
            case WK_FLOAT:  { float v = 0;  CHECK(UMFindFloat(m, f->name, i, &v) == CB_NO_ERROR && WLF32(v) == WLV32(p + 4 * i), "float bit pattern"); } break;
            case WK_DOUBLE: { double v = 0; CHECK(UMFindDouble(m, f->name, i, &v) == CB_NO_ERROR && WLD64(v) == WLV64(p + 8 * i), "double bit pattern"); } break;
            case WK_POINT:  { UPoint v;     CHECK(UMFindPoint(m, f->name, i, &v) == CB_NO_ERROR && WLF32(v.x) == WLV32(p + 8 * i) && WLF32(v.y) == WLV32(p + 8 * i + 4), "point value"); } break;
            case WK_RECT:   { URect v;      CHECK(UMFindRect(m, f->name, i, &v) == CB_NO_ERROR && WLF32(v.left) == WLV32(p + 16 * i) && WLF32(v.top) == WLV32(p + 16 * i + 4) && WLF32(v.right) == WLV32(p + 16 * i + 8) && WLF32(v.bottom) == WLV32(p + 16 * i + 12), "rect value"); } break;
            case WK_STRING:
            {
               const char * s = UMGetString(m, f->name, i); const unsigned l = wl_lens[f->lens + i];
               CHECK(s != 0, "string found");
               if (s) { for (unsigned j = 0; j < l; j++) CHECK((unsigned char) s[j] == p[o + j], "string bytes"); CHECK(s[l] == 0, "string terminated"); }
               o += l;
            }
            break;
            case WK_RAW:
            {
               const void * d = 0; uint32 nb = 0; const unsigned l = wl_lens[f->lens + i];
               CHECK(UMFindData(m, f->name, f->tc, i, &d, &nb) == CB_NO_ERROR && nb == l, "blob found with its length");
               if (d && nb == l) for (unsigned j = 0; j < l; j++) CHECK(((const unsigned char *) d)[j] == p[o + j], "blob bytes");
               o += l;
            }
            break;
            case WK_MESSAGE:
            {
               UMessage sub; CHECK(UMFindMessage(m, f->name, i, &sub) == CB_NO_ERROR, "sub-message found");
               check_parsed(&sub, (unsigned) wl_subs[f->subs + i], V);
            }
            break;
         }
      }
      /* one past the last item does not exist */
      if (f->kind == WK_INT32) { int32 v; CHECK(UMFindInt32(m, f->name, f->n, &v) != CB_NO_ERROR, "no item past the end"); }
   }
}
void harness_um_build(void)
{
   unsigned char V[WL_MAXVALS]; const unsigned nv = wl_nvals();
   for (unsigned i = 0; i < nv; i++) V[i] = nondet_u8();
   wlv_assume_canonical(V);
   unsigned char ref[BUFCAP]; wl_encode(V, ref);
   unsigned char * buf = (unsigned char *) malloc(BUFCAP); ASSUME(buf != 0);
   UMessage m; const WLMsg * M = &wl_msgs[0];
   CHECK(UMInitializeToEmptyMessage(&m, buf, BUFCAP, (M->what_off >= 0) ? WLV32(V + M->what_off) : M->what) == CB_NO_ERROR, "init");
   build(&m, 0, V);
   CHECK(UMGetFlattenedSize(&m) == wl_full(), "flattened size equals the reference size");
   const unsigned char * out = UMGetFlattenedBuffer(&m);
   for (unsigned i = 0; i < wl_full(); i++) { CHECK(out[i] == ref[i], "byte equals the reference encoding"); verif_observe(out[i]); }
   VERIF_REACHED();
}
void harness_um_parse_ref(void)
{
   unsigned char V[WL_MAXVALS]; const unsigned nv = wl_nvals();
   for (unsigned i = 0; i < nv; i++) V[i] = nondet_u8();
   wlv_assume_canonical(V);
   const unsigned T = wl_total();
   unsigned char * buf = (unsigned char *) malloc(T); ASSUME(buf != 0);
   wl_encode(V, buf);
   UMessage m;
   CHECK(UMInitializeWithExistingData(&m, buf, T) == CB_NO_ERROR, "reference bytes accepted");
   check_parsed(&m, 0, V);
   VERIF_REACHED();
}
