/* wl.h -- interface of the generated wire-layout file (lib/wire.py gen_c) */
#ifndef WL_H
#define WL_H
typedef struct { const char * name; unsigned kind, tc, n, voff; int lens; int subs; } WLField;
typedef struct { int what_off; unsigned what; unsigned nfields; unsigned first; } WLMsg;
extern const WLField wl_fields[]; extern const WLMsg wl_msgs[]; extern const unsigned wl_lens[]; extern const int wl_subs[]; extern const unsigned wl_nmsgs;
unsigned wl_total(void); unsigned wl_full(void); unsigned wl_nvals(void);
void wl_encode(const unsigned char * V, unsigned char * b);
enum { WK_BOOL, WK_INT8, WK_INT16, WK_INT32, WK_INT64, WK_FLOAT, WK_DOUBLE, WK_POINT, WK_RECT, WK_STRING, WK_RAW, WK_MESSAGE };
#define WL_MAXVALS 96
#endif
