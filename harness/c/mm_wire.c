/* C08 / MiniMessage.c against the reference layout (lib/wire.py): for a message shape with SYMBOLIC item values,
 *   build:  MMPut*Field + MMFlattenMessage produce exactly the reference bytes, MMGetFlattenedSize the reference size;
 *   parse:  MMUnflattenMessage on the reference bytes yields exactly the values, and re-flattening reproduces the bytes. */
#include "vc.h"
#include "valloc_impl.h"
#include "wlv.h"
#include "lang/c/minimessage/MiniMessage.h"
#define BUFCAP 160
static MMessage * build(unsigned mi, const unsigned char * V)
{
   const WLMsg * M = &wl_msgs[mi];
   MMessage * m = MMAllocMessage((M->what_off >= 0) ? WLV32(V + M->what_off) : M->what); ASSUME(m != 0);
   for (unsigned fi = 0; fi < M->nfields; fi++)
   {
      const WLField * f = &wl_fields[M->first + fi];
      const unsigned char * p = V + f->voff;
      switch (f->kind)
      {
         case WK_BOOL:   { MBool * a  = MMPutBoolField(m, MFalse, f->name, f->n);   CHECK(a != 0, "put"); if (a) for (unsigned i = 0; i < f->n; i++) a[i] = p[i]; } break;
         case WK_INT8:   { int8 * a   = MMPutInt8Field(m, MFalse, f->name, f->n);   CHECK(a != 0, "put"); if (a) for (unsigned i = 0; i < f->n; i++) a[i] = (int8) p[i]; } break;
         case WK_INT16:  { int16 * a  = MMPutInt16Field(m, MFalse, f->name, f->n);  CHECK(a != 0, "put"); if (a) for (unsigned i = 0; i < f->n; i++) a[i] = (int16) WLV16(p + 2 * i); } break;
         case WK_INT32:  { int32 * a  = MMPutInt32Field(m, MFalse, f->name, f->n);  CHECK(a != 0, "put"); if (a) for (unsigned i = 0; i < f->n; i++) a[i] = (int32) WLV32(p + 4 * i); } break;
         case WK_INT64:  { int64 * a  = MMPutInt64Field(m, MFalse, f->name, f->n);  CHECK(a != 0, "put"); if (a) for (unsigned i = 0; i < f->n; i++) a[i] = (int64) WLV64(p + 8 * i); } break;
         case WK_FLOAT:  { float * a  = MMPutFloatField(m, MFalse, f->name, f->n);  CHECK(a != 0, "put"); if (a) for (unsigned i = 0; i < f->n; i++) a[i] = WLVF(p + 4 * i); } break;
         case WK_DOUBLE: { double * a = MMPutDoubleField(m, MFalse, f->name, f->n); CHECK(a != 0, "put"); if (a) for (unsigned i = 0; i < f->n; i++) a[i] = WLVD(p + 8 * i); } break;
         case WK_POINT:  { MPoint * a = MMPutPointField(m, MFalse, f->name, f->n);  CHECK(a != 0, "put"); if (a) for (unsigned i = 0; i < f->n; i++) { a[i].x = WLVF(p + 8 * i); a[i].y = WLVF(p + 8 * i + 4); } } break;
         case WK_RECT:   { MRect * a  = MMPutRectField(m, MFalse, f->name, f->n);   CHECK(a != 0, "put"); if (a) for (unsigned i = 0; i < f->n; i++) { a[i].left = WLVF(p + 16 * i); a[i].top = WLVF(p + 16 * i + 4); a[i].right = WLVF(p + 16 * i + 8); a[i].bottom = WLVF(p + 16 * i + 12); } } break;
         case WK_STRING: case WK_RAW:
         {
            MByteBuffer ** a = (f->kind == WK_STRING) ? MMPutStringField(m, MFalse, f->name, f->n) : MMPutDataField(m, MFalse, f->tc, f->name, f->n);
            CHECK(a != 0, "put"); unsigned o = 0;
            if (a) for (unsigned i = 0; i < f->n; i++)
            {
               const unsigned l = wl_lens[f->lens + i], tot = l + ((f->kind == WK_STRING) ? 1 : 0);
               a[i] = MBAllocByteBuffer(tot, MTrue); ASSUME(a[i] != 0);
               for (unsigned j = 0; j < l; j++) (&a[i]->bytes)[j] = p[o + j];
               o += l;
            }
         }
         break;
         case WK_MESSAGE:
         {
            MMessage ** a = MMPutMessageField(m, MFalse, f->name, f->n); CHECK(a != 0, "put");
            if (a) for (unsigned i = 0; i < f->n; i++) a[i] = build((unsigned) wl_subs[f->subs + i], V);
         }
         break;
      }
   }
   return m;
}
static void check_parsed(const MMessage * m, unsigned mi, const unsigned char * V)
{
   const WLMsg * M = &wl_msgs[mi];
   CHECK(MMGetWhat(m) == ((M->what_off >= 0) ? WLV32(V + M->what_off) : M->what), "what code");
   for (unsigned fi = 0; fi < M->nfields; fi++)
   {
      const WLField * f = &wl_fields[M->first + fi];
      const unsigned char * p = V + f->voff;
      uint32 n = 0, tc = 0;
      CHECK(MMGetFieldInfo(m, f->name, B_ANY_TYPE, &n, &tc) == CB_NO_ERROR && n == f->n && tc == f->tc, "field present with its type and item count");
      unsigned o = 0;
      switch (f->kind)
      {
         case WK_BOOL:   { MBool * a  = MMGetBoolField(m, f->name, &n);   CHECK(a != 0 && n == f->n, "get"); if (a) for (unsigned i = 0; i < f->n; i++) CHECK((uint8) a[i] == p[i], "bool byte"); } break;
         case WK_INT8:   { int8 * a   = MMGetInt8Field(m, f->name, &n);   CHECK(a != 0 && n == f->n, "get"); if (a) for (unsigned i = 0; i < f->n; i++) CHECK((uint8) a[i] == p[i], "int8 value"); } break;
         case WK_INT16:  { int16 * a  = MMGetInt16Field(m, f->name, &n);  CHECK(a != 0 && n == f->n, "get"); if (a) for (unsigned i = 0; i < f->n; i++) CHECK((uint16) a[i] == WLV16(p + 2 * i), "int16 value"); } break;
         case WK_INT32:  { int32 * a  = MMGetInt32Field(m, f->name, &n);  CHECK(a != 0 && n == f->n, "get"); if (a) for (unsigned i = 0; i < f->n; i++) CHECK((uint32) a[i] == WLV32(p + 4 * i), "int32 value"); } break;
         case WK_INT64:  { int64 * a  = MMGetInt64Field(m, f->name, &n);  CHECK(a != 0 && n == f->n, "get"); if (a) for (unsigned i = 0; i < f->n; i++) CHECK((uint64) a[i] == WLV64(p + 8 * i), "int64 value"); } break;
         case WK_FLOAT:  { float * a  = MMGetFloatField(m, f->name, &n);  CHECK(a != 0 && n == f->n, "get"); if (a) for (unsigned i = 0; i < f->n; i++) CHECK(WLF32(a[i]) == WLV32(p + 4 * i), "float bit pattern"); } break;
         case WK_DOUBLE: { double * a = MMGetDoubleField(m, f->name, &n); CHECK(a != 0 && n == f->n, "get"); if (a) for (unsigned i = 0; i < f->n; i++) CHECK(WLD64(a[i]) == WLV64(p + 8 * i), "double bit pattern"); } break;
         case WK_POINT:  { MPoint * a = MMGetPointField(m, f->name, &n);  CHECK(a != 0 && n == f->n, "get"); if (a) for (unsigned i = 0; i < f->n; i++) CHECK(WLF32(a[i].x) == WLV32(p + 8 * i) && WLF32(a[i].y) == WLV32(p + 8 * i + 4), "point value"); } break;
         case WK_RECT:   { MRect * a  = MMGetRectField(m, f->name, &n);   CHECK(a != 0 && n == f->n, "get"); if (a) for (unsigned i = 0; i < f->n; i++) CHECK(WLF32(a[i].left) == WLV32(p + 16 * i) && WLF32(a[i].top) == WLV32(p + 16 * i + 4) && WLF32(a[i].right) == WLV32(p + 16 * i + 8) && WLF32(a[i].bottom) == WLV32(p + 16 * i + 12), "rect value"); } break;
         case WK_STRING: case WK_RAW:
         {
            MByteBuffer ** a = (f->kind == WK_STRING) ? MMGetStringField(m, f->name, &n) : MMGetDataField(m, f->tc, f->name, &n);
            CHECK(a != 0 && n == f->n, "get");
            if (a) for (unsigned i = 0; i < f->n; i++)
            {
               const unsigned l = wl_lens[f->lens + i], tot = l + ((f->kind == WK_STRING) ? 1 : 0);
               CHECK(a[i] != 0 && a[i]->numBytes == tot, "item present with its length");
               if (a[i] && a[i]->numBytes == tot) { for (unsigned j = 0; j < l; j++) CHECK((&a[i]->bytes)[j] == p[o + j], "item bytes"); if (f->kind == WK_STRING) CHECK((&a[i]->bytes)[l] == 0, "string terminated"); }
               o += l;
            }
         }
         break;
         case WK_MESSAGE:
         {
            MMessage ** a = MMGetMessageField(m, f->name, &n); CHECK(a != 0 && n == f->n, "get");
            if (a) for (unsigned i = 0; i < f->n; i++) { CHECK(a[i] != 0, "sub-message present"); if (a[i]) check_parsed(a[i], (unsigned) wl_subs[f->subs + i], V); }
         }
         break;
      }
   }
}
void harness_mm_build(void)
{
   unsigned char V[WL_MAXVALS]; const unsigned nv = wl_nvals();
   for (unsigned i = 0; i < nv; i++) V[i] = nondet_u8();
   unsigned char ref[BUFCAP]; wl_encode(V, ref);
   MMessage * m = build(0, V);
   const uint32 sz = MMGetFlattenedSize(m);
   CHECK(sz == wl_full(), "MMGetFlattenedSize equals the reference size");
   unsigned char * out = (unsigned char *) verif_raw_malloc(wl_full()); ASSUME(out != 0);
   if (sz == wl_full()) { MMFlattenMessage(m, out); for (unsigned i = 0; i < wl_full(); i++) { CHECK(out[i] == ref[i], "byte equals the reference encoding"); verif_observe(out[i]); } }
   VERIF_REACHED();
}
void harness_mm_parse_ref(void)
{
   unsigned char V[WL_MAXVALS]; const unsigned nv = wl_nvals();
   for (unsigned i = 0; i < nv; i++) V[i] = nondet_u8();
   const unsigned T = wl_total();
   unsigned char * buf = (unsigned char *) verif_raw_malloc(T); ASSUME(buf != 0);
   wl_encode(V, buf);
   MMessage * m = MMAllocMessage(0); ASSUME(m != 0);
   CHECK(MMUnflattenMessage(m, buf, T) == CB_NO_ERROR, "reference bytes accepted");
   check_parsed(m, 0, V);
   const uint32 sz = MMGetFlattenedSize(m);
   CHECK(sz == T, "re-flattened size equals the input size");
   unsigned char * out = (unsigned char *) verif_raw_malloc(T); ASSUME(out != 0);
   if (sz == T) { MMFlattenMessage(m, out); for (unsigned i = 0; i < T; i++) CHECK(out[i] == buf[i], "re-flattened byte equals the input"); }
   VERIF_REACHED();
}
