/* wlv.h -- helpers shared by the harnesses that build/compare Messages according to the generated shape tables (wl.h) */
#ifndef WLV_H
#define WLV_H
#include "wl.h"
static inline unsigned WLV16(const unsigned char * p) { return (unsigned) p[0] | ((unsigned) p[1] << 8); }
static inline unsigned WLV32(const unsigned char * p) { return (unsigned) p[0] | ((unsigned) p[1] << 8) | ((unsigned) p[2] << 16) | ((unsigned) p[3] << 24); }
static inline unsigned long long WLV64(const unsigned char * p) { return (unsigned long long) WLV32(p) | ((unsigned long long) WLV32(p + 4) << 32); }
static inline float WLVF(const unsigned char * p) { unsigned u = WLV32(p); float f; memcpy(&f, &u, 4); return f; }
static inline double WLVD(const unsigned char * p) { unsigned long long u = WLV64(p); double f; memcpy(&f, &u, 8); return f; }
static inline unsigned WLF32(float f) { unsigned u; memcpy(&u, &f, 4); return u; }
static inline unsigned long long WLD64(double f) { unsigned long long u; memcpy(&u, &f, 8); return u; }
/* V bytes that the builders cannot represent freely: bool payload bytes must be 0/1 (writers canonicalise), string bytes must be non-NUL */
static inline void wlv_assume_canonical(const unsigned char * V)
{
   for (unsigned mi = 0; mi < wl_nmsgs; mi++)
      for (unsigned fi = 0; fi < wl_msgs[mi].nfields; fi++)
      {
         const WLField * f = &wl_fields[wl_msgs[mi].first + fi];
         if (f->kind == WK_BOOL) for (unsigned i = 0; i < f->n; i++) ASSUME(V[f->voff + i] <= 1);
         if (f->kind == WK_STRING) { unsigned o = f->voff; for (unsigned i = 0; i < f->n; i++) { for (unsigned j = 0; j < wl_lens[f->lens + i]; j++) ASSUME(V[o + j] != 0); o += wl_lens[f->lens + i]; } }
      }
}
#endif
