/* bodies of the bounded allocator model; included by exactly one harness translation unit AFTER valloc.h */
#undef malloc
#undef free
#undef realloc
#ifndef __CPROVER__
void __CPROVER_assert(_Bool, const char *);
void __CPROVER_assume(_Bool);
#endif
unsigned long verif_alloc_total;
void * verif_malloc(size_t n)
{
   __CPROVER_assert(n <= VERIF_ALLOC_ONE, "allocation request within the O(N) per-request budget");
   __CPROVER_assume(n <= VERIF_ALLOC_ONE);
   verif_alloc_total += n;
   __CPROVER_assert(verif_alloc_total <= VERIF_ALLOC_TOTAL, "total allocation within the O(N) budget");
#ifdef __CPROVER__
   char * p = (char *) malloc(VERIF_ALLOC_ONE);
   __CPROVER_assume(p != 0);
#ifdef VERIF_START_ALIGNED
   return p;
#else
   return p + (VERIF_ALLOC_ONE - n);
#endif
#else
   return malloc(n ? n : 1);
#endif
}
void verif_free(void * p)
{
#ifdef __CPROVER__
   if (p) free((char *) p - __CPROVER_POINTER_OFFSET(p));
#else
   free(p);
#endif
}
void * verif_realloc(void * p, size_t n)
{
   __CPROVER_assert(0, "realloc is not modelled (unreachable in the checked entry points)");
   return 0;
}
#define malloc  verif_malloc
#define free    verif_free
#define realloc verif_realloc
