/* C02 / MicroMessage.c: every public read accessor on an arbitrary N-byte buffer is memory-safe and terminates.
 * Shape: N (buffer length), OP (which accessor).  Symbolic: every buffer byte, the field name (1..2 chars), the index,
 * the type code argument. */
#include "vc.h"
#include "lang/c/micromessage/MicroMessage.h"
#ifndef N
#define N 32
#endif
#ifndef OP
#define OP 0
#endif
static void sym_name(char * name)
{
   name[0] = (char) nondet_u8(); name[1] = (char) nondet_u8(); name[2] = 0;
}
void harness_um_parse(void)
{
   unsigned char * buf = verif_symbolic_buffer(N);
   UMessage m;
   c_status_t init = UMInitializeWithExistingData(&m, buf, N);
   char name[3]; sym_name(name);
   uint32 idx = nondet_u32();
   uint64_t o = 0;
   if (init == CB_NO_ERROR)
   {
#if OP == 0
      o = UMGetNumFields(&m) + UMGetWhatCode(&m) + UMGetFlattenedSize(&m) + UMIsMessageValid(&m);
#elif OP == 1
      UBool r = 0; o = UMFindBool(&m, name, idx, &r); o = o * 3 + r;
#elif OP == 2
      int8 r = 0; o = UMFindInt8(&m, name, idx, &r); o = o * 3 + (uint8) r;
#elif OP == 3
      int16 r = 0; o = UMFindInt16(&m, name, idx, &r); o = o * 3 + (uint16) r;
#elif OP == 4
      int32 r = 0; o = UMFindInt32(&m, name, idx, &r); o = o * 3 + (uint32) r;
#elif OP == 5
      int64 r = 0; o = UMFindInt64(&m, name, idx, &r); o = o * 3 + (uint64) r;
#elif OP == 6
      float r = 0; o = UMFindFloat(&m, name, idx, &r); uint32 b; memcpy(&b, &r, 4); o = o * 3 + b;
#elif OP == 7
      double r = 0; o = UMFindDouble(&m, name, idx, &r); uint64 b; memcpy(&b, &r, 8); o = o * 3 + b;
#elif OP == 8
      UPoint r = {0, 0}; o = UMFindPoint(&m, name, idx, &r); uint32 b; memcpy(&b, &r.y, 4); o = o * 3 + b;
#elif OP == 9
      URect r = {0, 0, 0, 0}; o = UMFindRect(&m, name, idx, &r); uint32 b; memcpy(&b, &r.bottom, 4); o = o * 3 + b;
#elif OP == 10
      const char * s = UMGetString(&m, name, idx);
      if (s) { /* the returned string must be readable up to its NUL inside the buffer */ uint32 l = 0; while (s[l]) l++; o = l + 1; CHECK((const unsigned char *) s >= buf && (const unsigned char *) s + l < buf + N, "UMGetString result lies inside the buffer"); }
#elif OP == 11
      const void * d = 0; uint32 nb = 0; uint32 tc = nondet_u32();
      if (UMFindData(&m, name, tc, idx, &d, &nb) == CB_NO_ERROR)
      {
         /* the returned blob must lie inside the buffer */
         CHECK((const unsigned char *) d >= buf && (const unsigned char *) d <= buf + N && nb <= (uint32) (buf + N - (const unsigned char *) d), "UMFindData result lies inside the buffer");
         o = nb + 1; if (nb > 0) o += ((const unsigned char *) d)[nb - 1];
      }
#elif OP == 12
      UMessage sub;
      if (UMFindMessage(&m, name, idx, &sub) == CB_NO_ERROR)
      {
         o = 1 + UMGetWhatCode(&sub) + UMGetNumFields(&sub);
         CHECK(sub._buffer >= buf && sub._buffer <= buf + N && sub._numValidBytes <= (uint32) (buf + N - sub._buffer), "UMFindMessage result lies inside the buffer");
         /* one level of recursion: read something out of the sub-message */
         char n2[3]; sym_name(n2); int32 r = 0; o += UMFindInt32(&sub, n2, nondet_u32(), &r); o += (uint32) r;
      }
#elif OP == 13
      uint32 tc = nondet_u32(); o = UMGetNumItemsInField(&m, name, tc);
#elif OP == 14
      o = UMGetFieldTypeCode(&m, name);
#elif OP == 15
      /* field-name iterator to exhaustion */
      UMessageFieldNameIterator it; UMIteratorInitialize(&it, &m, nondet_u32());
      unsigned steps = 0;
      while (1)
      {
         uint32 ni = 0, ft = 0;
         const char * fn = UMIteratorGetCurrentFieldName(&it, &ni, &ft);
         if (fn == 0) break;
         CHECK((const unsigned char *) fn >= buf && (const unsigned char *) fn < buf + N, "iterator field name lies inside the buffer");
         o = o * 31 + ni + ft; steps++;
         UMIteratorAdvance(&it);
      }
      o += steps;
#elif OP == 16
      /* two different accessors in a row (the read-field cache is shared between them) */
      int32 r = 0; o = UMFindInt32(&m, name, idx, &r); o = o * 3 + (uint32) r;
      char n2[3]; sym_name(n2); int16 r2 = 0; o += UMFindInt16(&m, n2, nondet_u32(), &r2); o += (uint16) r2;
      o += UMGetNumItemsInField(&m, name, B_ANY_TYPE);
#else
#error unknown OP
#endif
   }
   verif_observe(o);
   VERIF_REACHED();
}
