/* valloc.h -- bounded allocator model, force-included (cbmc --include / gcc -include) in front of code whose allocation sizes are
 * driven by untrusted input.  Every request is asserted against the property's per-request budget (VERIF_ALLOC_ONE) and the running
 * total against VERIF_ALLOC_TOTAL ("never allocates more than a fixed multiple of N plus a constant").  Under CBMC the block is a
 * constant-size object with the logical block END-aligned in it, so that any access past the logical end leaves the object. */
#ifndef VALLOC_H
#define VALLOC_H
#include <stdlib.h>
#include <string.h>
#ifndef VERIF_ALLOC_ONE
#define VERIF_ALLOC_ONE 512
#endif
#ifndef VERIF_ALLOC_TOTAL
#define VERIF_ALLOC_TOTAL 4096
#endif
#ifdef __cplusplus
extern "C" {
#endif
extern unsigned long verif_alloc_total;
void * verif_malloc(size_t n);
void   verif_free(void * p);
void * verif_realloc(void * p, size_t n);
#ifdef __cplusplus
}
#endif
static inline void * verif_raw_malloc(size_t n) { return malloc(n); }
static inline void   verif_raw_free(void * p) { free(p); }
/* byte-loop models of the mem* functions: CBMC's built-ins turn a symbolic length into array-theory updates of the whole object */
static inline void * verif_memcpy(void * d, const void * s, size_t n)
{
   /* word-sized copies keep CBMC's constant propagation alive (a byte loop into a scalar does not) */
   if (n == 4) { *(unsigned int *) d = *(const unsigned int *) s; return d; }
   if (n == 8) { *(unsigned long long *) d = *(const unsigned long long *) s; return d; }
   if (n == 2) { *(unsigned short *) d = *(const unsigned short *) s; return d; }
   for (size_t i = 0; i < n; i++) ((unsigned char *) d)[i] = ((const unsigned char *) s)[i];
   return d;
}
static inline void * verif_memset(void * d, int c, size_t n) { for (size_t i = 0; i < n; i++) ((unsigned char *) d)[i] = (unsigned char) c; return d; }
static inline int verif_memcmp(const void * a, const void * b, size_t n) { for (size_t i = 0; i < n; i++) { unsigned char x = ((const unsigned char *) a)[i], y = ((const unsigned char *) b)[i]; if (x != y) return x < y ? -1 : 1; } return 0; }
#ifdef __CPROVER__
#define memcpy  verif_memcpy
#define memset  verif_memset
#define memcmp  verif_memcmp
#endif
#define malloc  verif_malloc
#define free    verif_free
#define realloc verif_realloc
#endif
