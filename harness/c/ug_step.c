/* C03 / MicroMessageGateway.c: one I/O call from an ARBITRARY valid mid-stream state (inductive step over I/O calls), same form as mg_step.c.
 * The micro gateway receives the 8-byte frame header and then the body into the SAME caller-supplied buffer, and hands out a UMessage that points into it.
 * Shape: BODY (>= 12), PHASE (0 header / 1 body / 2 sender).  Symbolic: cursor, every body byte, maxBytes, every transport count. */
#include "vc.h"
#include "lang/c/micromessage/MicroMessageGateway.h"
#ifndef BODY
#define BODY 14
#endif
#define FRAME (8+BODY)
static unsigned char stream[2*FRAME]; static unsigned rd, wr;
static unsigned char inbuf[BODY+4], outbuf[2*FRAME+8];
static UMessageGateway gw;
static void put32(unsigned char * p, uint32 v) { p[0]=(unsigned char)v; p[1]=(unsigned char)(v>>8); p[2]=(unsigned char)(v>>16); p[3]=(unsigned char)(v>>24); }
static int32 RecvF(uint8 * buf, uint32 n, void * arg)
{
   (void) arg;
   CHECK(buf >= inbuf && (uint32) (buf - inbuf) + n <= sizeof(inbuf), "receive target lies inside the input buffer");
   unsigned avail = 2*FRAME - rd; unsigned k = nondet_u32(); ASSUME(k <= n && k <= avail);
   for (unsigned i = 0; i < k; i++) buf[i] = stream[rd + i];
   rd += k; return (int32) k;
}
static int32 SendF(const uint8 * buf, uint32 n, void * arg)
{
   (void) arg;
   CHECK(buf >= outbuf && (uint32) (buf - outbuf) + n <= sizeof(outbuf), "send source lies inside the output buffer");
   unsigned k = nondet_u32(); ASSUME(k <= n);
   CHECK(wr + k <= 2*FRAME, "never sends more than the queued frames");
   for (unsigned i = 0; i < k && wr + i < 2*FRAME; i++) CHECK(buf[i] == stream[wr + i], "sent byte continues the expected stream exactly");
   wr += k; return (int32) k;
}
#if PHASE < 2
void harness_ug_step(void)
{
   for (unsigned i = 0; i < 2; i++) { put32(stream+i*FRAME, BODY); put32(stream+i*FRAME+4, 1164862256u); put32(stream+i*FRAME+8, 1347235888u); for (unsigned j = 4; j < BODY; j++) stream[i*FRAME+8+j] = nondet_u8(); }
   UGGatewayInitialize(&gw, inbuf, sizeof(inbuf), outbuf, sizeof(outbuf));
   unsigned p = nondet_u32();
#if PHASE == 0
   ASSUME(p < 8);                                               /* header phase (p = 0: the freshly initialised gateway) */
   gw._numInputBytesToRead = 8; gw._numValidInputBytes = p;
   for (unsigned i = 0; i < 8; i++) if (i < p) inbuf[i] = stream[i];
#else
   ASSUME(p >= 8 && p < FRAME);                                 /* body phase: the body is received from offset 0 of the same buffer */
   gw._numInputBytesToRead = BODY; gw._numValidInputBytes = p - 8;
   for (unsigned i = 0; i < BODY; i++) if (i < p - 8) inbuf[i] = stream[8 + i];
#endif
   rd = p;
   uint8 * const fvBefore = gw._firstValidOutputByte; const uint32 nvBefore = gw._numValidOutputBytes;
   UMessage r; uint32 maxBytes = nondet_u32();
   int32 n = UGDoInput(&gw, maxBytes, RecvF, 0, &r);
   CHECK(n >= 0, "no receive error on a well-formed stream");
   CHECK((unsigned) n == rd - p, "reported byte count equals the bytes consumed");
   CHECK((unsigned) n <= maxBytes, "never consumes more than maxBytes");
   CHECK(gw._firstValidOutputByte == fvBefore && gw._numValidOutputBytes == nvBefore, "an input call leaves the send state untouched");
   if (rd < FRAME)
   {
      CHECK(UMIsMessageValid(&r) == UFalse, "nothing is delivered before the frame's last byte");
      if (rd < 8) { CHECK(gw._numInputBytesToRead == 8 && gw._numValidInputBytes == rd, "header phase, cursor equals the stream position"); for (unsigned i = 0; i < 8; i++) if (i < rd) CHECK(inbuf[i] == stream[i], "buffer holds exactly the header prefix"); }
      else        { CHECK(gw._numInputBytesToRead == BODY && gw._numValidInputBytes == rd - 8, "body phase, cursor equals the stream position"); for (unsigned i = 0; i < BODY; i++) if (i < rd - 8) CHECK(inbuf[i] == stream[8 + i], "buffer holds exactly the body prefix"); }
   }
   else
   {
      CHECK(rd == FRAME, "the call stops at the frame boundary when it delivers");
      CHECK(UMIsMessageValid(&r) && UMGetFlattenedSize(&r) == BODY && UMGetFlattenedBuffer(&r) == inbuf, "a message of exactly the body size is delivered");
      for (unsigned i = 0; i < BODY; i++) CHECK(inbuf[i] == stream[8 + i], "the delivered bytes are exactly the frame's body");
      CHECK(gw._numInputBytesToRead == 8 && gw._numValidInputBytes == 0, "ready for the next frame: Recv(0)");
   }
   verif_observe(rd); verif_observe((uint64_t) n);
   VERIF_REACHED();
}
#else
void harness_ug_step(void)
{
   UGGatewayInitialize(&gw, inbuf, sizeof(inbuf), outbuf, sizeof(outbuf));
   /* queue two messages through the public API: header (12) + one int8 field "a" with BODY-26 items */
   for (unsigned f = 0; f < 2; f++)
   {
      UMessage m = UGGetOutgoingMessage(&gw, nondet_u32());
      CHECK(UMIsMessageValid(&m), "an outgoing message is available");
      int8 vals[BODY]; for (unsigned i = 0; i < BODY - 26; i++) vals[i] = (int8) nondet_u8();
      CHECK(UMAddInt8s(&m, "a", vals, BODY - 26) == CB_NO_ERROR, "add");
      CHECK(UMGetFlattenedSize(&m) == BODY, "message has the intended size");
      UGOutgoingMessagePrepared(&gw, &m);
   }
   CHECK(gw._numValidOutputBytes == 2*FRAME && gw._firstValidOutputByte == outbuf, "two frames queued");
   for (unsigned i = 0; i < 2*FRAME; i++) stream[i] = outbuf[i];
   for (unsigned f = 0; f < 2; f++) { unsigned char h[8]; put32(h, BODY); put32(h+4, 1164862256u); for (unsigned i = 0; i < 8; i++) CHECK(stream[f*FRAME+i] == h[i], "frame header = {length LE, 'Enc0' LE}"); }
   unsigned q = nondet_u32(); ASSUME(q < 2*FRAME);               /* Send(q): the first q bytes have been sent */
   gw._firstValidOutputByte = outbuf + q; gw._numValidOutputBytes = 2*FRAME - q; wr = q;
   const uint32 inToRead = gw._numInputBytesToRead, inValid = gw._numValidInputBytes;
   uint32 maxBytes = nondet_u32();
   int32 n = UGDoOutput(&gw, maxBytes, SendF, 0);
   CHECK(n >= 0 && (unsigned) n == wr - q, "reported byte count equals the bytes sent");
   CHECK((unsigned) n <= maxBytes, "never sends more than maxBytes");
   CHECK(gw._numInputBytesToRead == inToRead && gw._numValidInputBytes == inValid, "an output call leaves the receive state untouched");
   if (wr < 2*FRAME) { CHECK(gw._numValidOutputBytes == 2*FRAME - wr && gw._firstValidOutputByte == outbuf + wr, "send cursor equals the stream position"); CHECK(UGHasBytesToOutput(&gw), "HasBytesToOutput while data is queued"); }
   else              { CHECK(gw._numValidOutputBytes == 0 && gw._firstValidOutputByte == outbuf && !UGHasBytesToOutput(&gw), "queue empty after the last byte"); }
   verif_observe(wr); verif_observe((uint64_t) n);
   VERIF_REACHED();
}
#endif
