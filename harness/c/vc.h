/* vc.h -- common include of every Engine-A (C) harness */
#ifndef VC_H
#define VC_H
#include "vsym_c.h"
#ifdef __CPROVER__
#include "vsym_cbmc.h"
#endif
#include <stdlib.h>
#include <string.h>
/* An exactly-sized heap object of n symbolic bytes: any access past either end leaves the object. */
static inline unsigned char * verif_symbolic_buffer(unsigned n)
{
   unsigned char * p = (unsigned char *) malloc(n ? n : 1);
   ASSUME(p != 0);
   for (unsigned i = 0; i < n; i++) p[i] = nondet_u8();
   return p;
}
#endif
