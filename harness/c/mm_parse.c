/* C02 / MiniMessage.c: MMUnflattenMessage on hostile bytes is memory-safe, terminates, allocates O(N), and leaves the MMessage
 * usable (iterable, re-flattenable into an exactly-sized buffer, reusable, destructible) whether it succeeded or failed.
 * The input is produced by the generated layout file: a shape-valid encoding with symbolic payload bytes in which one framing word
 * may be hostile (solver-ranged or a listed constant), truncated to any length, or followed by garbage. */
#include "vc.h"
#include "valloc_impl.h"
#include "wl.h"
#include "lang/c/minimessage/MiniMessage.h"
static const unsigned char kValid[] = { '0','0','M','P', 7,0,0,0, 1,0,0,0, 2,0,0,0, 'a',0, 'G','N','O','L', 4,0,0,0, 5,0,0,0 };  /* what=7, one int32 field "a" = 5 */
void harness_mm_parse(void)
{
   unsigned char V[WL_MAXVALS];
   const unsigned nv = wl_nvals(), T = wl_total();
   for (unsigned i = 0; i < nv; i++) V[i] = nondet_u8();
   unsigned char * buf = (unsigned char *) verif_raw_malloc(T ? T : 1); ASSUME(buf != 0);
   wl_encode(V, buf);
   MMessage * m = MMAllocMessage(0); ASSUME(m != 0);
   c_status_t st = MMUnflattenMessage(m, buf, T);
   uint64_t o = (st == CB_NO_ERROR);
   /* iterate over whatever the parser left in the object */
   {
      MMessageIterator it = MMGetFieldNameIterator(m, B_ANY_TYPE);
      uint32 tc = 0; const char * fn;
      while ((fn = MMGetNextFieldName(&it, &tc)) != 0)
      {
         uint32 ni = 0, tc2 = 0;
         CHECK(MMGetFieldInfo(m, fn, B_ANY_TYPE, &ni, &tc2) == CB_NO_ERROR, "iterated field exists");
         CHECK(ni > 0, "fields have at least one item");
         o = o * 31 + tc + ni;
      }
   }
   /* re-flatten into an exactly-sized buffer */
   {
      uint32 sz = MMGetFlattenedSize(m);
      CHECK(sz >= 12, "flattened size covers the header");
      CHECK(sz <= 2 * T + 64, "flattened size of a parsed message is O(N)");
      unsigned char * out = (unsigned char *) verif_raw_malloc(sz); ASSUME(out != 0);
      MMFlattenMessage(m, out);
      o = o * 31 + sz; for (uint32 i = 0; i < sz && i < 160; i++) o = o * 31 + out[i];
   }
   /* reusable: whatever happened, a second parse of a known-good buffer succeeds and yields its content */
   {
      c_status_t st2 = MMUnflattenMessage(m, kValid, sizeof(kValid));
      CHECK(st2 == CB_NO_ERROR, "object is reusable after any parse");
      uint32 n = 0; int32 * p = MMGetInt32Field(m, "a", &n);
      CHECK(p != 0 && n == 1 && p[0] == 5 && MMGetWhat(m) == 7, "second parse yields the valid content");
   }
   MMFreeMessage(m);   /* destructible */
   verif_observe(o);
   VERIF_REACHED();
}
